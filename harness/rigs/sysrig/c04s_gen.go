package main

// Scenario generator of the end-to-end part of C04 (see c04s.go). Everything is a pure function of (seed, index).

import (
	"fmt"
	"math/rand"
	"os"

	"verifharness/internal/vf"
)

type c04Template struct{ kind, sub string }

var c04Templates = []c04Template{
	{"K1", "partition-not-in-last-listed-db"},
	{"K1", "partition-in-last-listed-db"},
	{"K2", "partition-created-right-after-collection"},
	{"K3", "collection-startup"},
	{"K4", "pause-drop-resume"},
	{"K4", "kill-drop-start"},
	{"K4", "drop-then-pause-resume"},
	{"K4", "drop-then-kill-start"},
	{"K4", "pause-between-shards"},
	{"K5", "pause-resume-delete"},
	{"K1", "partition-not-in-last-listed-db"},
	{"K2", "partition-created-later"},
	{"K3", "collection-watch"},
	{"K4", "kill-between-shards"},
	{"K6", "collection-drop-meets-full-event-queue-while-paused"},
	{"K7", "pause-resume-on-shared-target-then-drop-partition"},
	{"K7", "pause-resume-on-shared-target-then-drop-collection"},
}

func genC04Scens(run *vf.Run) []*c04Scen {
	if os.Getenv("C04S_ONLY") == "X1" {
		return []*c04Scen{genC04CrashRepro()}
	}
	n := run.Pick(len(c04Templates), 80)
	var out []*c04Scen
	for i := 0; i < n; i++ {
		t := c04Templates[i%len(c04Templates)]
		out = append(out, genC04Scen(run.Seed, i, t))
	}
	return out
}

type c04Gen struct {
	rnd *rand.Rand
	sc  *c04Scen
	w   *scenario
	// parts[ci]: partition names in the collection's list order (0 = _default)
	parts [][]string
	// dropped partitions per collection (indices), dropped collections
	dpart map[int]map[int]bool
	dcoll map[int]bool
}

func (g *c04Gen) add(st ...c04Step) { g.sc.Steps = append(g.sc.Steps, st...) }

func genC04Scen(seed int64, idx int, t c04Template) *c04Scen {
	rnd := vf.Rand(seed, "c04s", idx)
	w := &scenario{Idx: idx, NSrcP: 3, Targets: 1, PackCnt: 1}
	g := &c04Gen{rnd: rnd, w: w, dpart: map[int]map[int]bool{}, dcoll: map[int]bool{}}
	g.sc = &c04Scen{Idx: idx, Kind: t.kind, Sub: t.sub, Sc: w}
	if t.kind == "K6" {
		g.genK6()
		return g.sc
	}
	if t.kind == "K7" {
		g.genK7(t.sub)
		return g.sc
	}
	// world
	var colls []collDef
	// scenarios with a pause keep the world small: every barrier closed by a pause keeps a core busy for good
	small := t.kind == "K5" || (t.kind == "K4" && (t.sub == "pause-drop-resume" || t.sub == "drop-then-pause-resume" || t.sub == "pause-between-shards"))
	for _, db := range []string{"default", c04DBB} {
		n := 1 + rnd.Intn(2)
		if small {
			n = 1
		}
		for k := 0; k < n; k++ {
			shards := 1 + rnd.Intn(3)
			if k == 0 && rnd.Intn(3) > 0 {
				shards = 2 + rnd.Intn(2) // the collection most drops aim at: mostly several shards
			}
			cd := collDef{DB: db, Name: fmt.Sprintf("c%d", k), PChannels: rnd.Perm(w.NSrcP)[:shards]}
			np := 1 + rnd.Intn(3)
			if small {
				np = 1 + rnd.Intn(2)
			}
			for p := 1; p <= np; p++ {
				cd.Parts = append(cd.Parts, fmt.Sprintf("p%d", p))
			}
			colls = append(colls, cd)
		}
	}
	rnd.Shuffle(len(colls), func(i, j int) { colls[i], colls[j] = colls[j], colls[i] })
	// collection 0 is never dropped and has a name of its own: it carries the DDL sentinels (created first, so it
	// is never the last one listed)
	colls = append([]collDef{{DB: "default", Name: "zc", PChannels: []int{rnd.Intn(w.NSrcP)}}}, colls...)
	w.Colls = colls
	w.Tasks = []taskDef{{Target: 0, Collections: "*", DB: "*"}}
	g.sc.LastListedDB = colls[len(colls)-1].DB
	for _, cd := range colls {
		g.parts = append(g.parts, append([]string{"_default"}, cd.Parts...))
	}
	pickColl := func(wantLast, any bool) int {
		var cand, pref []int
		for ci, cd := range colls {
			if ci == 0 {
				continue
			}
			if any || (cd.DB == g.sc.LastListedDB) == wantLast {
				cand = append(cand, ci)
				if cd.Name == "c0" {
					pref = append(pref, ci)
				}
			}
		}
		if len(pref) > 0 && rnd.Intn(4) > 0 {
			return pref[rnd.Intn(len(pref))]
		}
		return cand[rnd.Intn(len(cand))]
	}
	pickPart := func(ci int) int { return 1 + rnd.Intn(len(colls[ci].Parts)) }

	switch t.kind {
	case "K1":
		g.prefix(true)
		ci := pickColl(t.sub == "partition-in-last-listed-db", false)
		g.trickle(2)
		g.drop(ci, pickPart(ci), -1, nil)
	case "K2":
		g.prefix(false)
		ci := pickColl(false, true)
		if t.sub == "partition-created-later" {
			name := "late1"
			g.add(c04Step{Op: "create_part", Coll: ci, Name: name})
			g.parts[ci] = append(g.parts[ci], name)
			pi := len(g.parts[ci]) - 1
			// rows for the new partition right away, as a client would send them
			for si := range colls[ci].PChannels {
				if rnd.Intn(2) == 0 {
					g.add(c04Step{Op: "insert", Coll: ci, Shard: si, Part: pi, Rows: 1})
				}
			}
			if rnd.Intn(2) == 0 {
				g.add(c04Step{Op: "wait_parts"}, c04Step{Op: "settle"})
			}
			g.trickle(1)
			g.drop(ci, pi, -1, nil)
		} else {
			g.trickle(2)
			g.drop(ci, pickPart(ci), -1, nil)
		}
	case "K3":
		ci := pickColl(false, true)
		g.uniqueName(ci)
		g.prefix(t.sub == "collection-startup")
		g.trickle(2)
		g.drop(ci, -1, -1, nil)
		if rnd.Intn(2) == 0 { // and a partition of another collection
			cj := 1 + ci%(len(colls)-1) // another collection, never collection 0
			g.trickle(1)
			g.drop(cj, pickPart(cj), -1, nil)
		}
	case "K4":
		ci := pickColl(false, rnd.Intn(2) == 0)
		pi := pickPart(ci)
		if rnd.Intn(5) < 2 {
			pi = -1
			g.uniqueName(ci)
		}
		g.prefix(rnd.Intn(2) == 0)
		g.trickle(2)
		g.add(c04Step{Op: "settle"})
		stop, restart := c04Step{Op: "pause"}, c04Step{Op: "resume"}
		switch t.sub {
		case "kill-drop-start", "drop-then-kill-start", "kill-between-shards":
			stop, restart = c04Step{Op: "kill"}, c04Step{Op: "start"}
		}
		switch t.sub {
		case "pause-drop-resume", "kill-drop-start":
			g.add(stop, c04Step{Op: "sleep", N: 100 + rnd.Intn(300)})
			g.drop(ci, pi, -1, nil)
			g.add(c04Step{Op: "sleep", N: 100 + rnd.Intn(300)}, restart)
		case "drop-then-pause-resume", "drop-then-kill-start":
			g.drop(ci, pi, -1, nil)
			g.add(c04Step{Op: "wait_drop", Coll: ci, Part: pi})
			if rnd.Intn(2) == 0 {
				g.add(c04Step{Op: "settle"})
			}
			g.add(stop, c04Step{Op: "sleep", N: 100 + rnd.Intn(300)}, restart)
			g.trickle(1)
		case "pause-between-shards", "kill-between-shards":
			shards := len(colls[ci].PChannels)
			after := 1 + rnd.Intn(shards) // stop after this many drop messages (== shards: before the catalog change)
			ops := []c04Step{stop}
			if rnd.Intn(2) == 0 {
				// let the reader consume what has been appended so far before it is stopped
				ops = []c04Step{{Op: "sleep", N: 300 + rnd.Intn(500)}, stop}
			}
			g.drop(ci, pi, after, ops)
			g.add(c04Step{Op: "sleep", N: 100 + rnd.Intn(300)}, restart)
		}
		g.trickle(1)
	case "K5":
		g.prefix(rnd.Intn(2) == 0)
		g.trickle(2)
		n := 1 + rnd.Intn(2)
		for k := 0; k < n; k++ {
			if rnd.Intn(2) == 0 {
				g.add(c04Step{Op: "settle"})
			}
			g.add(c04Step{Op: "pause"})
			g.trickle(1)
			g.add(c04Step{Op: "sleep", N: 100 + rnd.Intn(400)})
			g.add(c04Step{Op: "resume"})
			g.trickle(1)
		}
		if rnd.Intn(2) == 0 {
			g.add(c04Step{Op: "settle"}, c04Step{Op: "delete"})
			g.trickle(1)
			g.sc.EndsDeleted = true
		} else if rnd.Intn(2) == 0 {
			g.add(c04Step{Op: "kill"}, c04Step{Op: "sleep", N: 100}, c04Step{Op: "start"})
			g.trickle(1)
		}
	}
	return g.sc
}

// prefix: the objects exist before the task is created (start-up listing) or are created while it runs (watch).
func (g *c04Gen) prefix(startup bool) {
	if startup {
		for ci := range g.w.Colls {
			g.add(c04Step{Op: "create_coll", Coll: ci})
		}
		g.add(c04Step{Op: "create_task"})
	} else {
		g.add(c04Step{Op: "create_task"})
		for ci := range g.w.Colls {
			g.add(c04Step{Op: "create_coll", Coll: ci})
		}
	}
	g.add(c04Step{Op: "wait_parts"}, c04Step{Op: "settle"})
}

// uniqueName: a collection that is dropped as a whole gets a name no other collection has. (Two collections of one
// name in two databases share the name-keyed record of a channel handler; removing one of them makes the next
// partition added to the other crash the process - a defect outside C04 that would end the scenario.)
func (g *c04Gen) uniqueName(ci int) {
	if os.Getenv("C04S_KEEP_COLLIDING_NAME") != "" {
		return // reproduces that crash (debug aid)
	}
	g.w.Colls[ci].Name = fmt.Sprintf("u%d", ci)
}

func (g *c04Gen) livePart(ci int) int {
	for try := 0; try < 8; try++ {
		pi := g.rnd.Intn(len(g.parts[ci]))
		if !g.dpart[ci][pi] {
			return pi
		}
	}
	return 0
}

// trickle: a few rows into live partitions of live collections.
func (g *c04Gen) trickle(rounds int) {
	for r := 0; r < rounds; r++ {
		for ci, cd := range g.w.Colls {
			if g.dcoll[ci] {
				continue
			}
			for si := range cd.PChannels {
				if g.rnd.Intn(3) > 0 {
					g.add(c04Step{Op: "insert", Coll: ci, Shard: si, Part: g.livePart(ci), Rows: 1 + g.rnd.Intn(2)})
				}
			}
		}
		g.add(c04Step{Op: "sleep", N: 20})
	}
}

// drop: the drop message on every shard in a seeded order, trailing rows for the object on the shards that have
// not been dropped yet, the catalog change last. stopAfter >= 1 places stopOps after that many drop messages.
func (g *c04Gen) drop(ci, pi, stopAfter int, stopOps []c04Step) {
	shards := len(g.w.Colls[ci].PChannels)
	order := g.rnd.Perm(shards)
	slow := g.rnd.Intn(2) == 0
	g.sc.Drops = append(g.sc.Drops, c04Drop{Coll: ci, Part: pi, Order: order, Slow: slow})
	done := map[int]bool{}
	for k, si := range order {
		for sj := 0; sj < shards; sj++ {
			if done[sj] || g.rnd.Intn(2) == 0 {
				continue
			}
			p := pi
			if p < 0 {
				p = g.livePart(ci)
			}
			g.add(c04Step{Op: "insert", Coll: ci, Shard: sj, Part: p, Rows: 1 + g.rnd.Intn(2)})
		}
		switch {
		case slow && k > 0:
			// long enough for the reader to have handled the previous shards' drop messages
			g.add(c04Step{Op: "sleep", N: 400 + g.rnd.Intn(400)})
		case g.rnd.Intn(3) == 0:
			g.add(c04Step{Op: "sleep", N: 10 + g.rnd.Intn(60)})
		}
		g.add(c04Step{Op: "drop_msg", Coll: ci, Shard: si, Part: pi})
		done[si] = true
		if stopAfter == k+1 {
			g.add(stopOps...)
		}
	}
	g.add(c04Step{Op: "drop_meta", Coll: ci, Part: pi})
	if pi < 0 {
		g.dcoll[ci] = true
	} else {
		if g.dpart[ci] == nil {
			g.dpart[ci] = map[int]bool{}
		}
		g.dpart[ci][pi] = true
	}
}

// genK6: see c04s_k6.go

// genC04CrashRepro (C04S_ONLY=X1, not part of any tier): the witness of a process crash outside C04. Collections of
// one name in two databases share a channel handler's name-keyed record; dropping one removes it, and the next
// partition added to the other dereferences nil in replicateChannelHandler.AddPartitionInfo.
func genC04CrashRepro() *c04Scen {
	w := &scenario{Idx: 9001, NSrcP: 3, Targets: 1, PackCnt: 1}
	w.Colls = []collDef{
		{DB: "default", Name: "zc", PChannels: []int{2}},
		{DB: "default", Name: "c0", PChannels: []int{0, 1}, Parts: []string{"p1"}},
		{DB: c04DBB, Name: "c0", PChannels: []int{0, 1}, Parts: []string{"p1"}},
	}
	w.Tasks = []taskDef{{Target: 0, Collections: "*", DB: "*"}}
	g := &c04Gen{rnd: vf.Rand(1, "c04s-x1", 0), w: w, dpart: map[int]map[int]bool{}, dcoll: map[int]bool{}}
	g.sc = &c04Scen{Idx: 9001, Kind: "X1", Sub: "same-name-in-two-databases-drop-one-add-partition-to-other", Sc: w, LastListedDB: c04DBB}
	for _, cd := range w.Colls {
		g.parts = append(g.parts, append([]string{"_default"}, cd.Parts...))
	}
	g.prefix(true)
	g.drop(1, -1, -1, nil)
	g.add(c04Step{Op: "wait_drop", Coll: 1, Part: -1}, c04Step{Op: "settle"})
	g.add(c04Step{Op: "create_part", Coll: 2, Name: "late1"}, c04Step{Op: "sleep", N: 3000})
	return g.sc
}

// genK7: two tasks of ONE target (one per database), so the target's reader objects (channel manager, catalog
// watchers) outlive the pause of one of them. The task that owns a collection with user partitions is paused and
// resumed (once or twice); only then is a partition registered BEFORE the pause - or the whole collection - dropped
// upstream: the resumed readers must have their drop barriers again, the drop request must arrive exactly once.
func (g *c04Gen) genK7(sub string) {
	rnd, w := g.rnd, g.w
	// the two tasks read disjoint source channels: stopping the streams of one task closes the whole handler of each
	// of its source channels (an observation outside C04, see DESIGN section 8), which would strand the other task
	two := rnd.Perm(2)
	ca := collDef{DB: "default", Name: "u1", PChannels: []int{two[0], two[1]}, Parts: []string{"p1", "p2"}}
	cb := collDef{DB: c04DBB, Name: "c0", PChannels: []int{2}, Parts: []string{"p1"}}
	w.Colls = []collDef{{DB: "default", Name: "zc", PChannels: []int{rnd.Intn(2)}}, ca, cb}
	w.Tasks = []taskDef{{Target: 0, Collections: "*", DB: "default"}, {Target: 0, Collections: "*", DB: c04DBB}}
	g.sc.LastListedDB = c04DBB
	for _, cd := range w.Colls {
		g.parts = append(g.parts, append([]string{"_default"}, cd.Parts...))
	}
	if rnd.Intn(2) == 0 {
		for ci := range w.Colls {
			g.add(c04Step{Op: "create_coll", Coll: ci})
		}
		g.add(c04Step{Op: "create_task", Task: 1}, c04Step{Op: "create_task", Task: 0})
	} else {
		g.add(c04Step{Op: "create_task", Task: 0}, c04Step{Op: "create_task", Task: 1})
		for ci := range w.Colls {
			g.add(c04Step{Op: "create_coll", Coll: ci})
		}
	}
	g.add(c04Step{Op: "wait_parts"}, c04Step{Op: "settle"})
	g.trickle(2)
	g.add(c04Step{Op: "settle"})
	for k, n := 0, 1+rnd.Intn(2); k < n; k++ {
		g.add(c04Step{Op: "pause", Task: 0}, c04Step{Op: "sleep", N: 100 + rnd.Intn(300)})
		g.trickle(1) // the other task keeps replicating, the paused one's rows wait upstream
		g.add(c04Step{Op: "resume", Task: 0})
		g.trickle(1)
		g.add(c04Step{Op: "settle"})
	}
	if sub == "pause-resume-on-shared-target-then-drop-collection" {
		g.drop(1, -1, -1, nil)
	} else {
		g.drop(1, 1+rnd.Intn(2), -1, nil)
		if rnd.Intn(2) == 0 {
			g.trickle(1)
			g.drop(2, 1, -1, nil) // and a partition of the task that was never paused
		}
	}
	g.trickle(1)
}
