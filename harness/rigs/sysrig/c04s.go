package main

// C04 (end-to-end part, "-prop C04S") — a drop is replayed downstream once, only after every shard reached it.
//
// The reader rig decides the barrier / shard-order / registration-race part of C04 against a fake dispatcher.
// This part runs the WHOLE real service (CollectionReader start-up scan and etcd watch, several databases, real
// pause / resume / process restart, the real writer issuing DropCollection / DropPartition over gRPC) in a
// killable child process and judges what arrives at the fake downstream Milvus.
//
// One scenario = one supervisor world (etcd, file broker, one fake downstream) + one CDC child + one task over
// all databases. The supervisor plays the upstream Milvus: catalog writes in etcd, inserts, drop messages on
// every shard in a seeded order with trailing rows on the shards that have not been dropped yet, then the catalog
// state change, while a pump keeps every physical channel ticking. Pauses, resumes, SIGKILL + restart and
// task deletion are placed at seeded points.
//
// Oracle (over the supervisor's single logical clock; a DDL call is stamped when it ARRIVES at the fake, a sent
// message carries a stamp taken BEFORE and one taken AFTER it was appended to its topic):
//   - every DropCollection / DropPartition call names an object that exists upstream under exactly that
//     database / collection / partition name, whose drop message had been appended on every shard of its
//     collection before the call arrived;
//   - per upstream-dropped object: exactly one successful call (per process incarnation; a call repeated by a
//     later incarnation after a SIGKILL is counted, not flagged), none for objects never dropped upstream;
//   - no row of the object that was appended after the call arrived is accepted downstream;
//   - "missing" is only claimed after logical quiescence (see c04Quiesce).

import (
	"context"
	"encoding/json"
	"fmt"
	"os"
	"sort"
	"strings"
	"sync"
	"time"

	"github.com/milvus-io/milvus-proto/go-api/v2/commonpb"
	"github.com/milvus-io/milvus-proto/go-api/v2/milvuspb"
	"github.com/milvus-io/milvus/pkg/mq/msgstream"

	"verifharness/internal/fakemilvus"
	"verifharness/internal/vf"
)

const c04DBB = "db_b"

type c04Step struct {
	Op    string `json:"op"`
	Coll  int    `json:"coll,omitempty"`
	Shard int    `json:"shard,omitempty"`
	Part  int    `json:"part,omitempty"` // index into the collection's partition list (0 = _default), -1 = whole collection
	Rows  int    `json:"rows,omitempty"`
	Name  string `json:"name,omitempty"`
	Task  int    `json:"task,omitempty"`
	N     int    `json:"n,omitempty"`
}

type c04Drop struct {
	Coll  int   `json:"coll"`
	Part  int   `json:"part"` // -1: the collection
	Order []int `json:"shard_order"`
	Slow  bool  `json:"gaps_between_shards,omitempty"` // 0.4-0.8 s between the shards' drop messages
}

type c04Scen struct {
	Idx   int       `json:"case"`
	Kind  string    `json:"kind"`
	Sub   string    `json:"sub"`
	Sc    *scenario `json:"world"`
	Steps []c04Step `json:"steps"`
	Drops []c04Drop `json:"drops"`
	// EndsDeleted: the task is deleted by the last step (no final quiescence possible)
	EndsDeleted bool `json:"ends_deleted,omitempty"`
	// LastListedDB: database of the collection that comes last in the catalog's partition listing
	LastListedDB string `json:"last_listed_db"`
}

type c04Sent struct {
	UID    int64  `json:"uid"`
	Kind   string `json:"kind"`
	Coll   int    `json:"coll"`
	Shard  int    `json:"shard"`
	Part   int    `json:"part"`
	Before int64  `json:"before"` // clock taken before the append
	After  int64  `json:"after"`  // clock taken after the append
	Inc    int    `json:"inc"`
}

type c04Call struct {
	Clock  int64  `json:"t"`
	Inc    int    `json:"inc"`
	Seq    int64  `json:"seq"`
	Method string `json:"method"`
	DB     string `json:"db"`
	Coll   string `json:"collection"`
	Part   string `json:"partition,omitempty"`
	OK     bool   `json:"ok"`
	Err    string `json:"err,omitempty"`
	call   *fakemilvus.Call
}

type c04Result struct {
	vios         []vio
	inconclusive string
	decided      bool
	dropCalls    int
	redelivered  int
	failedCalls  int
	selfPaused   bool
	selfResumes  int // times the supervisor resumed tasks that had paused themselves at the end
	crashed      bool
	rounds       int
	sigs         []string
	replay       map[string]any
	counts       map[string]int
}

type c04Run struct {
	sc   *c04Scen
	s    *super
	rs   *runState
	tgt  *fakemilvus.Server
	res  *c04Result
	opts childOpts

	sendMu sync.Mutex // serialises appends and ticks: per channel the timestamps never go backwards
	mu     sync.Mutex
	sent   []c04Sent
	calls  []*c04Call
	// seqAtStart: the fake's call count when the readers were (re)started last (resume call / child start)
	seqAtStart int64
	metaAt     map[string]int64 // object key -> clock of the catalog state change
	sentinelN  int
	pumpEnd    chan struct{}
	pumpWG     sync.WaitGroup
	holds      []*fakemilvus.Hold
	holdMethod string
	holdArmed  bool
	resumed    []chan string // pending asynchronous resume requests, oldest first
	rmHoldName string
	rmHolds    []*fakemilvus.Hold
}

func (x *c04Run) curInc() int {
	x.s.mu.Lock()
	defer x.s.mu.Unlock()
	return x.s.inc
}

// ---------------------------------------------------------------------------------------------------------------
// upstream

func (x *c04Run) startPump(every time.Duration) {
	x.pumpEnd = make(chan struct{})
	x.pumpWG.Add(1)
	go func() {
		defer x.pumpWG.Done()
		n := 0
		for {
			select {
			case <-x.pumpEnd:
				return
			case <-time.After(every):
				x.sendMu.Lock()
				_, _ = x.s.w.Src.TickAll(x.rs.pch)
				n++
				if n%8 == 0 {
					// the allocator persists its time ahead of every timestamp it hands out
					_ = x.s.w.Src.WriteTSO(context.Background())
				}
				x.sendMu.Unlock()
			}
		}
	}()
}

func (x *c04Run) stopPump() {
	if x.pumpEnd != nil {
		close(x.pumpEnd)
		x.pumpWG.Wait()
		x.pumpEnd = nil
	}
}

func (x *c04Run) send(kind string, ci, si, pi, rows int) (c04Sent, error) {
	x.sendMu.Lock()
	defer x.sendMu.Unlock()
	before := x.s.tick()
	d, err := x.rs.send(kind, ci, si, pi, rows)
	if err != nil {
		return c04Sent{}, err
	}
	r := c04Sent{UID: d.UID, Kind: kind, Coll: ci, Shard: si, Part: pi, Before: before, After: d.SentAt, Inc: x.curInc()}
	if kind == "dropcoll" {
		r.Part = -1
	}
	x.mu.Lock()
	x.sent = append(x.sent, r)
	x.mu.Unlock()
	return r, nil
}

type c04Ack struct {
	clock int64
	inc   int
}

func (x *c04Run) acks() map[int64][]c04Ack {
	out := map[int64][]c04Ack{}
	for _, e := range x.s.events() {
		if e.Kind != "ack" {
			continue
		}
		for _, u := range e.UIDs {
			if u > 0 {
				out[u] = append(out[u], c04Ack{e.Clock, e.Inc})
			}
		}
	}
	return out
}

func objKey(ci, pi int) string { return fmt.Sprintf("%d/%d", ci, pi) }

func (x *c04Run) collDropped(ci int) bool {
	c := x.rs.colls[ci]
	return c == nil || c.Dropped
}

// droppingShards: shards of the collection on which the collection's own drop message has been appended
func (x *c04Run) collDropSent(ci, si int) bool {
	x.mu.Lock()
	defer x.mu.Unlock()
	for _, d := range x.sent {
		if d.Kind == "dropcoll" && d.Coll == ci && d.Shard == si {
			return true
		}
	}
	return false
}

// settle sends a sentinel row into the default partition of every live stream until one sentinel per stream has
// been accepted downstream by the current incarnation; a stream delivers in order, so everything appended to it
// before has then been read. Returns "" or why it did not settle (watchdog: never a verdict by itself).
func (x *c04Run) settle(watchdog time.Duration) string {
	type skey struct{ ci, si int }
	from := x.s.clock.Load()
	inc := x.curInc()
	pending := map[skey][]int64{}
	for ci, c := range x.rs.colls {
		if c == nil || c.Dropped {
			continue
		}
		for si := range c.Shards {
			if x.collDropSent(ci, si) {
				continue
			}
			pending[skey{ci, si}] = nil
		}
	}
	deadline := time.Now().Add(watchdog)
	lastSend := time.Time{}
	for {
		if !x.s.childAlive() {
			return "child not alive"
		}
		if time.Since(lastSend) > 5*time.Second {
			for k := range pending {
				d, err := x.send("insert", k.ci, k.si, 0, 1)
				if err != nil {
					return "send: " + err.Error()
				}
				pending[k] = append(pending[k], d.UID)
			}
			lastSend = time.Now()
		}
		ak := x.acks()
		for k, uids := range pending {
			done := false
			for _, u := range uids {
				for _, a := range ak[u] {
					if a.clock > from && a.inc == inc {
						done = true
					}
				}
			}
			if done {
				delete(pending, k)
			}
		}
		if len(pending) == 0 {
			return ""
		}
		if time.Now().After(deadline) {
			var l []string
			for k := range pending {
				l = append(l, fmt.Sprintf("%s[%d]", x.sc.Sc.Colls[k.ci].DB+"."+x.sc.Sc.Colls[k.ci].Name, k.si))
			}
			sort.Strings(l)
			return "sentinel rows not accepted on " + strings.Join(l, ",")
		}
		time.Sleep(20 * time.Millisecond)
	}
}

// ddlSentinel creates a fresh partition upstream in a live collection and waits until the CreatePartition call
// for it arrived downstream: the api events of a target pass through one FIFO channel and one event loop, so
// every event queued before it has been handled.
func (x *c04Run) ddlSentinel(watchdog time.Duration) string {
	ci := -1
	droppedNames := map[string]bool{}
	for i, c := range x.rs.colls {
		if c != nil && (c.Dropped || x.collDropSent(i, 0)) {
			droppedNames[x.sc.Sc.Colls[i].Name] = true
		}
	}
	for pass := 0; pass < 2 && ci < 0; pass++ {
		for i, c := range x.rs.colls {
			// prefer a collection that shares its name with no dropped collection of another database
			if c != nil && !c.Dropped && !x.collDropSent(i, 0) && (pass == 1 || !droppedNames[x.sc.Sc.Colls[i].Name]) {
				ci = i
				break
			}
		}
	}
	if ci < 0 {
		return "no live collection for a DDL sentinel"
	}
	cd := x.sc.Sc.Colls[ci]
	if len(x.rs.taskIDs) > 1 {
		return x.ddlSentinelCollection(cd.DB, watchdog)
	}
	deadline := time.Now().Add(watchdog)
	var names []string
	lastCreate := time.Time{}
	for {
		// a new sentinel every few seconds: with several tasks on one target a watched partition may be handed to
		// a task that does not replicate it and is then lost for the others
		if time.Since(lastCreate) > 6*time.Second {
			x.mu.Lock()
			x.sentinelN++
			name := fmt.Sprintf("zq%d", x.sentinelN)
			x.mu.Unlock()
			if _, err := x.s.w.Src.CreatePartition(context.Background(), x.rs.colls[ci], name); err != nil {
				return "create sentinel partition: " + err.Error()
			}
			names = append(names, name)
			lastCreate = time.Now()
		}
		for _, c := range x.callsSnapshot() {
			if c.Method == "CreatePartition" && c.DB == cd.DB && c.Coll == cd.Name {
				for _, n := range names {
					if c.Part == n {
						if o := c.call.Outcome(); o != nil && o.OK() {
							return ""
						}
					}
				}
			}
		}
		if !x.s.childAlive() {
			return "child not alive"
		}
		if time.Now().After(deadline) {
			return fmt.Sprintf("sentinel partitions %v of %s.%s not created downstream", names, cd.DB, cd.Name)
		}
		time.Sleep(20 * time.Millisecond)
	}
}

// ddlSentinelCollection: with several tasks on one target a watched PARTITION may be handed to a task that does not
// replicate it; a watched collection is handed on correctly, so there the sentinel is a new collection.
func (x *c04Run) ddlSentinelCollection(db string, watchdog time.Duration) string {
	x.mu.Lock()
	x.sentinelN++
	name := fmt.Sprintf("zs%d", x.sentinelN)
	x.mu.Unlock()
	x.sendMu.Lock()
	_, err := x.s.w.Src.CreateCollection(context.Background(), db, name, []string{x.rs.pch[2]})
	x.sendMu.Unlock()
	if err != nil {
		return "create sentinel collection: " + err.Error()
	}
	deadline := time.Now().Add(watchdog)
	for {
		for _, c := range x.callsSnapshot() {
			if c.Method == "CreateCollection" && c.DB == db && c.Coll == name {
				if o := c.call.Outcome(); o != nil && o.OK() {
					return ""
				}
			}
		}
		if !x.s.childAlive() {
			return "child not alive"
		}
		if time.Now().After(deadline) {
			return fmt.Sprintf("sentinel collection %s.%s not created downstream", db, name)
		}
		time.Sleep(20 * time.Millisecond)
	}
}

func (x *c04Run) callsSnapshot() []*c04Call {
	x.mu.Lock()
	defer x.mu.Unlock()
	return append([]*c04Call(nil), x.calls...)
}

func (x *c04Run) dropCallsFor(db, coll, part string) []*c04Call {
	var out []*c04Call
	for _, c := range x.callsSnapshot() {
		if (c.Method == "DropPartition" || c.Method == "DropCollection") && c.DB == db && c.Coll == coll && c.Part == part {
			out = append(out, c)
		}
	}
	return out
}

func (x *c04Run) objNames(ci, pi int) (db, coll, part string) {
	cd := x.sc.Sc.Colls[ci]
	db, coll = cd.DB, cd.Name
	if pi >= 0 {
		part = x.rs.colls[ci].Parts[pi].Name
	}
	return
}

// ---------------------------------------------------------------------------------------------------------------
// one scenario

func runC04Case(sc *c04Scen, name string) *c04Result {
	res := &c04Result{counts: map[string]int{}}
	dir := scratchDir(name)
	s, err := newSuper(dir, 1)
	if err != nil {
		res.inconclusive = "world: " + err.Error()
		return res
	}
	defer s.close()
	x := &c04Run{sc: sc, s: s, tgt: s.w.Targets[0], res: res, metaAt: map[string]int64{}}
	x.rs = newRunState(s, sc.Sc)
	x.opts = childOpts{PackCount: 1, PackTimer: 30, SrcChannels: sc.Sc.NSrcP, TTIntervalMs: 300, NoStoreEvents: true}
	for _, db := range []string{c04DBB, c04DBC} {
		if err := x.tgt.AddDatabase(db); err != nil {
			res.inconclusive = "downstream database: " + err.Error()
			return res
		}
	}
	// downstream shards mirror the source's physical channel indices: stream i of a collection goes to ds-..._<i>
	var amu sync.Mutex
	next := int64(7000)
	x.tgt.SetIDAssigner(func(db, cname string) (int64, []string, []string) {
		amu.Lock()
		defer amu.Unlock()
		next += 10
		id := next
		var vs, ps []string
		for _, cd := range sc.Sc.Colls {
			if cd.DB == db && cd.Name == cname {
				idx := append([]int(nil), cd.PChannels...)
				sort.Ints(idx)
				for i, p := range idx {
					ps = append(ps, fmt.Sprintf("ds-rootcoord-dml_%d", p))
					vs = append(vs, fmt.Sprintf("ds-rootcoord-dml_%d_%dv%d", p, id, i))
				}
			}
		}
		return id, vs, ps
	})
	x.tgt.SetHook(func(call *fakemilvus.Call) *fakemilvus.Decision {
		if call.Method == "ReplicateMessage" && call.Replicate != nil {
			// K6: the replies of the packs that carry the drop message of one collection are held
			x.mu.Lock()
			name := x.rmHoldName
			x.mu.Unlock()
			if name == "" {
				return nil
			}
			for _, m := range call.Replicate.Msgs {
				if dm, ok := m.(*msgstream.DropCollectionMsg); ok && dm.GetCollectionName() == name {
					h := fakemilvus.NewHold()
					x.mu.Lock()
					x.rmHolds = append(x.rmHolds, h)
					x.mu.Unlock()
					return fakemilvus.HoldReply(h)
				}
			}
			return nil
		}
		var rec *c04Call
		switch r := call.Req.(type) {
		case *milvuspb.DropPartitionRequest:
			rec = &c04Call{Method: call.Method, DB: r.GetDbName(), Coll: r.GetCollectionName(), Part: r.GetPartitionName()}
		case *milvuspb.DropCollectionRequest:
			rec = &c04Call{Method: call.Method, DB: r.GetDbName(), Coll: r.GetCollectionName()}
		case *milvuspb.CreatePartitionRequest:
			rec = &c04Call{Method: call.Method, DB: r.GetDbName(), Coll: r.GetCollectionName(), Part: r.GetPartitionName()}
		case *milvuspb.CreateCollectionRequest:
			rec = &c04Call{Method: call.Method, DB: r.GetDbName(), Coll: r.GetCollectionName()}
		}
		if rec == nil {
			return nil
		}
		if rec.DB == "" {
			rec.DB = call.RouteDB() // the request's own db_name wins, else the routing metadata, else "default"
		}
		rec.call, rec.Seq = call, call.Seq
		rec.Inc = x.curInc()
		x.mu.Lock()
		rec.Clock = s.tick()
		x.calls = append(x.calls, rec)
		var h *fakemilvus.Hold
		if x.holdArmed && call.Method == x.holdMethod {
			x.holdArmed = false
			h = fakemilvus.NewHold()
			x.holds = append(x.holds, h)
		}
		x.mu.Unlock()
		if h != nil {
			return fakemilvus.HoldReply(h)
		}
		return nil
	})
	defer func() {
		x.mu.Lock()
		for _, h := range x.holds {
			h.Release()
		}
		for _, h := range x.rmHolds {
			h.Release()
		}
		x.mu.Unlock()
	}()
	if err := s.startChild(x.opts); err != nil {
		res.inconclusive = "child: " + err.Error()
		return res
	}
	x.startPump(100 * time.Millisecond)
	defer x.stopPump()

	abort := func(why string) *c04Result {
		x.stopPump()
		if p := x.crashNote(); p != "" {
			res.crashed = true
			why += " [the CDC process crashed: " + p + "]"
		}
		res.inconclusive = why
		x.judge(false)
		return res
	}
	for i, st := range sc.Steps {
		if why := x.exec(st); why != "" {
			return abort(fmt.Sprintf("step %d (%s): %s", i, st.Op, why))
		}
	}
	quiescent := false
	if sc.EndsDeleted {
		// nothing is running any more; give a wrong implementation the time to emit something
		time.Sleep(1500 * time.Millisecond)
		quiescent = true
	} else {
		why := x.quiesce()
		// no fault is injected in these scenarios: a task that paused ITSELF gave up on something it read. Like an
		// operator the supervisor resumes it (twice at most) and asks for quiescence again
		for attempt := 0; attempt < 2 && why != "" && x.s.childAlive(); attempt++ {
			resumed := 0
			for _, id := range x.rs.taskIDs {
				if id == "" {
					continue
				}
				if st, rsn, ok := x.rs.taskState(id); ok && st == "Paused" && !strings.Contains(rsn, "manually pause") {
					x.s.log(sevt{Kind: "note", Note: "self-paused task resumed by the supervisor: " + rsn})
					x.s.api("resume", map[string]any{"task_id": id})
					resumed++
				}
			}
			if resumed == 0 {
				break
			}
			res.selfResumes++
			time.Sleep(300 * time.Millisecond)
			why = x.quiesce()
		}
		if why != "" {
			if p := x.crashNote(); p != "" {
				res.crashed = true
				why += " [the CDC process crashed: " + p + "]"
			}
			res.inconclusive = why
		} else {
			quiescent = true
		}
	}
	x.stopPump()
	x.judge(quiescent)
	return res
}

func (x *c04Run) taskID(i int) string { return x.rs.taskIDs[i] }

// ownerSelfPaused returns the pause reason of the task that replicates collection ci when that task is paused for
// a reason of its own ("" otherwise).
func (x *c04Run) ownerSelfPaused(ci int) string {
	cd := x.sc.Sc.Colls[ci]
	for i, td := range x.sc.Sc.Tasks {
		if i >= len(x.rs.taskIDs) || x.rs.taskIDs[i] == "" || (td.DB != "*" && td.DB != cd.DB) {
			continue
		}
		if st, rsn, ok := x.rs.taskState(x.rs.taskIDs[i]); ok && st == "Paused" && !strings.Contains(rsn, "manually pause") {
			return rsn
		}
	}
	return ""
}

func (x *c04Run) exec(st c04Step) string {
	s, rs := x.s, x.rs
	ctx := context.Background()
	switch st.Op {
	case "create_task":
		_ = s.w.Src.WriteTSO(ctx)
		x.mu.Lock()
		x.seqAtStart = int64(x.tgt.CallCount(""))
		x.mu.Unlock()
		if r := rs.createTask(st.Task); r.Code != 200 {
			return fmt.Sprintf("create task: %d %s", r.Code, r.Message)
		}
	case "create_task_async":
		_ = s.w.Src.WriteTSO(ctx)
		x.mu.Lock()
		ch := make(chan string, 1)
		x.resumed = append(x.resumed, ch)
		x.mu.Unlock()
		go func() {
			if r := rs.createTask(st.Task); r.Code != 200 {
				ch <- fmt.Sprintf("create task: %d %s", r.Code, r.Message)
				return
			}
			ch <- ""
		}()
	case "create_coll":
		if err := rs.createColl(st.Coll); err != nil {
			return err.Error()
		}
	case "create_part":
		if _, err := s.w.Src.CreatePartition(ctx, rs.colls[st.Coll], st.Name); err != nil {
			return err.Error()
		}
	case "settle":
		if why := x.settle(60 * time.Second); why != "" {
			return why + x.stateNote()
		}
	case "wait_parts":
		// every live user partition exists downstream (a client inserts into a partition after it was created;
		// the CDC's own bounded retries while it lags behind belong to C06, not here)
		deadline := time.Now().Add(60 * time.Second)
		for {
			missing := ""
			for ci, c := range rs.colls {
				if c == nil || c.Dropped {
					continue
				}
				cd := x.sc.Sc.Colls[ci]
				dc := x.tgt.GetCollection(cd.DB, cd.Name)
				for _, p := range c.Parts {
					if p.Dropped {
						continue
					}
					if dc == nil {
						missing = cd.DB + "." + cd.Name
					} else if _, ok := dc.Partitions[p.Name]; !ok {
						missing = cd.DB + "." + cd.Name + "." + p.Name
					}
				}
			}
			if missing == "" {
				break
			}
			if time.Now().After(deadline) || !s.childAlive() {
				return missing + " not created downstream (watchdog)" + x.stateNote()
			}
			time.Sleep(30 * time.Millisecond)
		}
	case "insert":
		if rs.colls[st.Coll] == nil || x.collDropSent(st.Coll, st.Shard) {
			return ""
		}
		if _, err := x.send("insert", st.Coll, st.Shard, st.Part, max(1, st.Rows)); err != nil {
			return err.Error()
		}
	case "drop_msg":
		kind := "droppart"
		if st.Part < 0 {
			kind = "dropcoll"
		}
		if _, err := x.send(kind, st.Coll, st.Shard, max(0, st.Part), 0); err != nil {
			return err.Error()
		}
	case "drop_meta":
		c := rs.colls[st.Coll]
		var err error
		if st.Part < 0 {
			err = s.w.Src.DropCollectionMeta(ctx, c)
		} else {
			err = s.w.Src.DropPartitionMeta(ctx, c, c.Parts[st.Part])
		}
		if err != nil {
			return err.Error()
		}
		x.mu.Lock()
		x.metaAt[objKey(st.Coll, st.Part)] = s.tick()
		x.mu.Unlock()
	case "wait_drop":
		db, coll, part := x.objNames(st.Coll, st.Part)
		deadline := time.Now().Add(60 * time.Second)
		for {
			ok := false
			for _, c := range x.dropCallsFor(db, coll, part) {
				if o := c.call.Outcome(); o != nil && o.OK() {
					ok = true
				}
			}
			if ok {
				break
			}
			if time.Now().After(deadline) || !s.childAlive() {
				return fmt.Sprintf("drop call for %s.%s.%s not seen (watchdog)", db, coll, part) + x.stateNote()
			}
			time.Sleep(20 * time.Millisecond)
		}
	case "pause":
		if r := s.api("pause", map[string]any{"task_id": x.taskID(st.Task)}); r.Code != 200 {
			return fmt.Sprintf("pause: %d %s", r.Code, r.Message)
		}
	case "resume":
		_ = s.w.Src.WriteTSO(ctx)
		x.mu.Lock()
		x.seqAtStart = int64(x.tgt.CallCount(""))
		x.mu.Unlock()
		if r := s.api("resume", map[string]any{"task_id": x.taskID(st.Task)}); r.Code != 200 {
			return fmt.Sprintf("resume: %d %s", r.Code, r.Message)
		}
	case "delete":
		if r := s.api("delete", map[string]any{"task_id": x.taskID(st.Task)}); r.Code != 200 {
			return fmt.Sprintf("delete: %d %s", r.Code, r.Message)
		}
	case "kill":
		s.killChild("scenario kill")
	case "start":
		_ = s.w.Src.WriteTSO(ctx)
		x.mu.Lock()
		x.seqAtStart = int64(x.tgt.CallCount(""))
		x.mu.Unlock()
		if err := s.startChild(x.opts); err != nil {
			return err.Error()
		}
	case "sleep":
		time.Sleep(time.Duration(max(1, st.N)) * time.Millisecond)
	case "resume_async":
		_ = s.w.Src.WriteTSO(ctx)
		x.mu.Lock()
		x.seqAtStart = int64(x.tgt.CallCount(""))
		ch := make(chan string, 1)
		x.resumed = append(x.resumed, ch)
		x.mu.Unlock()
		id := x.taskID(st.Task)
		go func() {
			if r := s.api("resume", map[string]any{"task_id": id}); r.Code != 200 {
				ch <- fmt.Sprintf("resume: %d %s", r.Code, r.Message)
				return
			}
			ch <- ""
		}()
	case "wait_running":
		deadline := time.Now().Add(60 * time.Second)
		for {
			if state, _, ok := rs.taskState(x.taskID(st.Task)); ok && state == "Running" {
				return ""
			}
			if time.Now().After(deadline) {
				return "task did not become Running (watchdog)"
			}
			time.Sleep(50 * time.Millisecond)
		}
	case "wait_resumed":
		x.mu.Lock()
		if len(x.resumed) == 0 {
			x.mu.Unlock()
			return "no resume pending"
		}
		ch := x.resumed[0]
		x.resumed = x.resumed[1:]
		x.mu.Unlock()
		select {
		case why := <-ch:
			return why
		case <-time.After(90 * time.Second):
			return "resume did not return (watchdog)" + x.stateNote()
		}
	case "hold_next":
		x.mu.Lock()
		x.holdMethod, x.holdArmed = st.Name, true
		x.mu.Unlock()
	case "wait_held":
		deadline := time.Now().Add(60 * time.Second)
		for {
			x.mu.Lock()
			n := len(x.holds)
			var h *fakemilvus.Hold
			if n > 0 {
				h = x.holds[n-1]
			}
			x.mu.Unlock()
			if h != nil {
				select {
				case <-h.Applied():
					return ""
				default:
				}
			}
			if time.Now().After(deadline) {
				return "held call did not arrive (watchdog)"
			}
			time.Sleep(10 * time.Millisecond)
		}
	case "release":
		x.mu.Lock()
		for _, h := range x.holds {
			h.Release()
		}
		x.mu.Unlock()
	case "hold_rm_drop":
		x.mu.Lock()
		x.rmHoldName = st.Name
		x.mu.Unlock()
	case "wait_rm_held":
		// st.N packs carrying the drop message have arrived downstream (their shards' readers have read it)
		deadline := time.Now().Add(60 * time.Second)
		for {
			x.mu.Lock()
			n := 0
			for _, h := range x.rmHolds {
				select {
				case <-h.Applied():
					n++
				default:
				}
			}
			x.mu.Unlock()
			if n >= st.N {
				return ""
			}
			if time.Now().After(deadline) || !s.childAlive() {
				return fmt.Sprintf("%d of %d packs with the drop message arrived (watchdog)", n, st.N) + x.stateNote()
			}
			time.Sleep(10 * time.Millisecond)
		}
	case "release_rm":
		x.mu.Lock()
		x.rmHoldName = ""
		for _, h := range x.rmHolds {
			h.Release()
		}
		x.mu.Unlock()
	case "pump_off":
		x.stopPump()
	case "pump_on":
		if x.pumpEnd == nil {
			x.startPump(100 * time.Millisecond)
		}
	case "wait_acked_drops":
		// every drop message of the object appended so far has been accepted downstream (read on its shard)
		deadline := time.Now().Add(60 * time.Second)
		for {
			ak := x.acks()
			missing := 0
			x.mu.Lock()
			for _, d := range x.sent {
				if (d.Kind == "droppart" || d.Kind == "dropcoll") && d.Coll == st.Coll && d.Part == st.Part && len(ak[d.UID]) == 0 {
					missing++
				}
			}
			x.mu.Unlock()
			if missing == 0 {
				return ""
			}
			if time.Now().After(deadline) || !s.childAlive() {
				return "drop messages not accepted downstream (watchdog)" + x.stateNote()
			}
			time.Sleep(20 * time.Millisecond)
		}
	case "wait_calls":
		// st.N calls of method st.Name have arrived
		deadline := time.Now().Add(60 * time.Second)
		for x.tgt.CallCount(st.Name) < st.N {
			if time.Now().After(deadline) {
				return fmt.Sprintf("%d %s calls did not arrive (watchdog)", st.N, st.Name)
			}
			time.Sleep(10 * time.Millisecond)
		}
	default:
		return "unknown op"
	}
	return ""
}

// stateNote describes the tasks' states (for inconclusive texts); marks a task that paused itself.
func (x *c04Run) stateNote() string {
	if !x.s.childAlive() {
		return " [child dead: " + oneLineC04(x.s.tailChildLog(300)) + "]"
	}
	var l []string
	for i, id := range x.rs.taskIDs {
		if id == "" {
			continue
		}
		st, rsn, ok := x.rs.taskState(id)
		if !ok {
			l = append(l, fmt.Sprintf("task %d: ? %s", i, rsn))
			continue
		}
		if st != "Running" && !strings.Contains(rsn, "manually pause") {
			x.res.selfPaused = true
		}
		l = append(l, fmt.Sprintf("task %d: %s %q", i, st, rsn))
	}
	return " [" + strings.Join(l, "; ") + "]"
}

// crashNote returns the panic line of a child that died by itself ("" when it is alive or was killed by the scenario).
func (x *c04Run) crashNote() string {
	if x.s.childAlive() {
		return ""
	}
	b, err := os.ReadFile(x.s.childLog)
	if err != nil {
		return ""
	}
	t := string(b)
	for _, mark := range []string{"[PANIC]", "panic:", "fatal error:"} {
		if i := strings.Index(t, mark); i >= 0 {
			l := t[i:]
			if j := strings.Index(l, "\n"); j >= 0 {
				l = l[:j]
			}
			if len(l) > 300 {
				l = l[:300]
			}
			return l
		}
	}
	return ""
}

func oneLineC04(s string) string {
	s = strings.ReplaceAll(s, "\n", " | ")
	if len(s) > 300 {
		s = s[len(s)-300:]
	}
	return s
}

// quiesce: logical quiescence at the end of a scenario whose tasks are expected to run.
//
//	round: (a) every task is Running; (b) a sentinel row appended now to every live stream is accepted by the
//	current incarnation (so each live stream has been read beyond every drop message appended to it); (c) for a
//	dropped collection, whose streams end with the drop message, a DropCollection message of that collection has
//	been accepted on each of its downstream channels since the readers were started last; (d) a partition created
//	now is created downstream (the api event queue has been drained).
//
// After a round in which every expected drop call is present the scenario is quiescent. Otherwise up to three
// rounds are made; an expected call still absent after three complete rounds is absent for good.
func (x *c04Run) quiesce() string {
	const rounds = 3
	for r := 1; r <= rounds; r++ {
		x.res.rounds = r
		for i, id := range x.rs.taskIDs {
			if id == "" {
				continue
			}
			st, rsn, ok := x.rs.taskState(id)
			if !ok || st != "Running" {
				if !strings.Contains(rsn, "manually pause") {
					x.res.selfPaused = true
				}
				return fmt.Sprintf("task %d is %s (%q) at the end: not quiescent", i, st, rsn)
			}
		}
		if why := x.settle(60 * time.Second); why != "" {
			return "final: " + why + x.stateNote()
		}
		if why := x.collDropEvidence(30 * time.Second); why != "" {
			return "final: " + why + x.stateNote()
		}
		if why := x.ddlSentinel(60 * time.Second); why != "" {
			return "final: " + why + x.stateNote()
		}
		if x.allExpectedPresent() {
			return ""
		}
		if r < rounds {
			time.Sleep(500 * time.Millisecond)
		}
	}
	return ""
}

func (x *c04Run) allExpectedPresent() bool {
	for _, d := range x.sc.Drops {
		db, coll, part := x.objNames(d.Coll, d.Part)
		ok := false
		for _, c := range x.dropCallsFor(db, coll, part) {
			if o := c.call.Outcome(); o != nil && o.OK() {
				ok = true
			}
		}
		if !ok {
			return false
		}
	}
	return true
}

// collDropEvidence waits until, for every dropped collection without a drop call yet, a DropCollection message
// naming it was accepted on each of its downstream channels since the last (re)start of the readers.
func (x *c04Run) collDropEvidence(watchdog time.Duration) string {
	deadline := time.Now().Add(watchdog)
	for {
		x.mu.Lock()
		from := x.seqAtStart
		x.mu.Unlock()
		pendingDesc := ""
		for _, d := range x.sc.Drops {
			if d.Part >= 0 {
				continue
			}
			db, coll, _ := x.objNames(d.Coll, -1)
			if len(x.dropCallsFor(db, coll, "")) > 0 {
				continue
			}
			// (c') a pack carrying the real drop message of every shard arrived downstream at some time: every
			// shard's reader has read it
			arrived := map[int64]bool{}
			for _, rec := range x.tgt.AllReplicates() {
				for _, m := range rec.Msgs {
					if dm, ok := m.(*msgstream.DropCollectionMsg); ok {
						arrived[dm.GetBase().GetMsgID()] = true
					}
				}
			}
			all := true
			x.mu.Lock()
			seen := map[int]bool{}
			for _, m := range x.sent {
				if m.Kind == "dropcoll" && m.Coll == d.Coll && arrived[m.UID] {
					seen[m.Shard] = true
				}
			}
			x.mu.Unlock()
			for si := range x.rs.colls[d.Coll].Shards {
				all = all && seen[si]
			}
			if all {
				continue
			}
			chans := map[string]bool{}
			for _, rec := range x.tgt.Replicates() {
				if rec.Seq < from {
					continue
				}
				for _, m := range rec.Msgs {
					if dm, ok := m.(*msgstream.DropCollectionMsg); ok && dm.GetCollectionName() == coll && dbOr(dm.GetDbName()) == db {
						chans[rec.Channel] = true
					}
				}
			}
			if len(chans) < len(x.rs.colls[d.Coll].Shards) {
				pendingDesc = fmt.Sprintf("drop-collection message of %s.%s accepted on %d of %d downstream channels since the readers were started", db, coll, len(chans), len(x.rs.colls[d.Coll].Shards))
			}
		}
		if pendingDesc == "" {
			return ""
		}
		if time.Now().After(deadline) || !x.s.childAlive() {
			return pendingDesc
		}
		time.Sleep(20 * time.Millisecond)
	}
}

func dbOr(db string) string {
	if db == "" {
		return "default"
	}
	return db
}

// ---------------------------------------------------------------------------------------------------------------
// oracle

type c04ObjInfo struct {
	ci, pi         int
	db, coll, part string
	shards         int
	dropBefore     []int64 // per shard: clock before the drop message was appended (0 = not appended)
}

func (x *c04Run) judge(quiescent bool) {
	res := x.res
	evs := x.s.events()
	add := func(k, d string) { res.vios = append(res.vios, vio{k, d}) }
	x.mu.Lock()
	sent := append([]c04Sent(nil), x.sent...)
	calls := append([]*c04Call(nil), x.calls...)
	x.mu.Unlock()
	for _, c := range calls {
		if o := c.call.Outcome(); o != nil {
			c.OK, c.Err = o.OK(), o.ErrText()
		} else {
			c.Err = "in flight"
		}
	}
	// catalogue of upstream objects
	var objs []*c04ObjInfo
	for ci, c := range x.rs.colls {
		if c == nil {
			continue
		}
		cd := x.sc.Sc.Colls[ci]
		o := &c04ObjInfo{ci: ci, pi: -1, db: cd.DB, coll: cd.Name, shards: len(c.Shards), dropBefore: make([]int64, len(c.Shards))}
		objs = append(objs, o)
		for pi, p := range c.Parts {
			objs = append(objs, &c04ObjInfo{ci: ci, pi: pi, db: cd.DB, coll: cd.Name, part: p.Name, shards: len(c.Shards), dropBefore: make([]int64, len(c.Shards))})
		}
	}
	find := func(ci, pi int) *c04ObjInfo {
		for _, o := range objs {
			if o.ci == ci && o.pi == pi {
				return o
			}
		}
		return nil
	}
	for _, d := range sent {
		if d.Kind == "droppart" || d.Kind == "dropcoll" {
			if o := find(d.Coll, d.Part); o != nil && o.dropBefore[d.Shard] == 0 {
				o.dropBefore[d.Shard] = d.Before
			}
		}
	}
	begun := func(o *c04ObjInfo, t int64) int {
		n := 0
		for _, b := range o.dropBefore {
			if b != 0 && b < t {
				n++
			}
		}
		return n
	}
	// was a stop (pause / delete) the last thing asked of the task before clock t?
	stopping := func(t int64) (bool, string) {
		st, what := false, ""
		for _, e := range evs {
			if e.Clock >= t {
				break
			}
			if e.Kind != "api" {
				continue
			}
			switch e.API {
			case "pause call", "delete call":
				st, what = true, e.API
			case "resume reply", "create reply":
				if e.Code == 200 {
					st = false
				}
			}
		}
		return st, what
	}
	// pausedAt: t lies between the reply of a pause (or delete) and the next resume request
	pausedAt := func(t int64) (int64, bool) {
		from, paused := int64(0), false
		for _, e := range evs {
			if e.Clock >= t {
				break
			}
			if e.Kind != "api" {
				continue
			}
			switch e.API {
			case "pause reply", "delete reply":
				if e.Code == 200 && len(x.rs.taskIDs) == 1 {
					from, paused = e.Clock, true
				}
			case "resume call":
				paused = false
			}
		}
		return from, paused
	}
	flagged := map[string]bool{}
	once := func(k, sig, d string) {
		if !flagged[k+"|"+sig] {
			flagged[k+"|"+sig] = true
			add(k, d)
		}
	}
	type cnt struct{ perInc map[int]int }
	okCalls := map[*c04ObjInfo]*cnt{}
	firstCall := map[*c04ObjInfo]int64{}
	for _, c := range calls {
		if c.Method != "DropPartition" && c.Method != "DropCollection" {
			continue
		}
		res.dropCalls++
		if !c.OK {
			res.failedCalls++
		}
		what := fmt.Sprintf("%s(db=%q, collection=%q, partition=%q) arrived at clock %d (incarnation %d, outcome: %s)", c.Method, c.DB, c.Coll, c.Part, c.Clock, c.Inc, okText(c))
		var exact *c04ObjInfo
		var sameNames []*c04ObjInfo
		for _, o := range objs {
			if (o.pi < 0) != (c.Method == "DropCollection") {
				continue
			}
			if o.coll == c.Coll && o.part == c.Part {
				if o.db == c.DB {
					exact = o
				} else {
					sameNames = append(sameNames, o)
				}
			}
		}
		// an object of the same names in another database whose drop is complete upstream and not served yet
		var owed *c04ObjInfo
		for _, o := range sameNames {
			if begun(o, c.Clock) == o.shards {
				owed = o
			}
		}
		switch {
		case exact != nil && begun(exact, c.Clock) == exact.shards:
			if _, ok := firstCall[exact]; !ok {
				firstCall[exact] = c.Clock
			}
			if from, ok := pausedAt(c.Clock); ok {
				first := int64(1 << 62)
				for _, b := range exact.dropBefore {
					if b < first {
						first = b
					}
				}
				if first > from {
					once("C04/e2e-drop-request-while-task-paused", c.DB+"."+c.Coll+"."+c.Part, what+" while the task was paused (pause acknowledged at clock "+fmt.Sprint(from)+", not resumed yet); the first drop message for it was appended upstream at clock "+fmt.Sprint(first)+", after the pause")
				}
			}
			if c.OK {
				if okCalls[exact] == nil {
					okCalls[exact] = &cnt{perInc: map[int]int{}}
				}
				okCalls[exact].perInc[c.Inc]++
			}
		case exact != nil && begun(exact, c.Clock) > 0:
			if _, ok := firstCall[exact]; !ok {
				firstCall[exact] = c.Clock
			}
			var l []string
			for si, b := range exact.dropBefore {
				switch {
				case b == 0:
					l = append(l, fmt.Sprintf("shard %d: not appended at all", si))
				case b >= c.Clock:
					l = append(l, fmt.Sprintf("shard %d: appended after clock %d", si, b))
				default:
					l = append(l, fmt.Sprintf("shard %d: appended after clock %d (before the call)", si, b))
				}
			}
			once("C04/e2e-drop-before-every-shard-reached-it", c.DB+"."+c.Coll+"."+c.Part, what+" before the drop message had been appended on every shard of the collection: "+strings.Join(l, "; "))
		case owed != nil:
			once("C04/e2e-drop-request-wrong-database", c.DB+"."+c.Coll+"."+c.Part, what+": the object dropped upstream is "+fmt.Sprintf("%s.%s.%s", owed.db, owed.coll, owed.part)+"; nothing of that name was dropped in database "+c.DB)
		case exact != nil:
			if _, ok := firstCall[exact]; !ok {
				firstCall[exact] = c.Clock
			}
			if st, api := stopping(c.Clock); st {
				once("C04/e2e-stop-produced-a-drop", c.DB+"."+c.Coll+"."+c.Part, what+" after the "+api+" although no drop message for it had been appended upstream")
			} else {
				once("C04/e2e-drop-request-without-upstream-drop", c.DB+"."+c.Coll+"."+c.Part, what+" although no drop message for it had been appended upstream on any shard")
			}
		case len(sameNames) > 0:
			once("C04/e2e-drop-request-wrong-database", c.DB+"."+c.Coll+"."+c.Part, what+": an object of these names exists upstream only in database "+sameNames[0].db)
		default:
			once("C04/e2e-drop-request-wrong-names", c.DB+"."+c.Coll+"."+c.Part, what+": no such object exists upstream")
		}
	}
	// per dropped object: exactly one
	selfPausedNote := ""
	if res.selfPaused {
		selfPausedNote = " (a task paused itself)"
	}
	for _, d := range x.sc.Drops {
		o := find(d.Coll, d.Part)
		if o == nil {
			continue
		}
		name := fmt.Sprintf("%s.%s.%s", o.db, o.coll, o.part)
		total, incs := 0, 0
		if c := okCalls[o]; c != nil {
			for inc, n := range c.perInc {
				total += n
				incs++
				if n > 1 {
					once("C04/e2e-drop-request-twice", name, fmt.Sprintf("%d successful drop calls for %s within incarnation %d (shards %d, order %v)", n, name, inc, o.shards, d.Order))
				}
			}
		}
		if incs > 1 {
			res.redelivered += incs - 1
		}
		complete := begun(o, 1<<62) == o.shards
		if _, early := firstCall[o]; early && total == 0 {
			// a call for this very object was made, too early (flagged above); the correct one is not demanded too
			continue
		}
		if total == 0 && complete {
			switch {
			case !quiescent && res.selfResumes >= 2 && x.ownerSelfPaused(d.Coll) != "":
				once("C04/e2e-drop-request-missing", name, fmt.Sprintf("%s was dropped upstream (drop message appended on all %d shards in order %v, catalog state changed at clock %d); no fault was injected, yet the task that replicates it paused itself, and did so again after each of %d resumes by the supervisor (%s): no successful drop call for it ever arrived", name, o.shards, d.Order, x.metaAt[objKey(d.Coll, d.Part)], res.selfResumes, x.ownerSelfPaused(d.Coll)))
			case !quiescent:
				if res.inconclusive == "" {
					res.inconclusive = "no drop call for " + name + " and no quiescence" + selfPausedNote
				}
			case strings.Contains(x.allChildLogs(), "seek timestamp is 0"):
				res.inconclusive = "no drop call for " + name + ": the object was dropped while the reader was down and the resumed stream has no seek timestamp (documented gap of the synthetic drop message)"
			default:
				once("C04/e2e-drop-request-missing", name, fmt.Sprintf("%s was dropped upstream (drop message appended on all %d shards in order %v, catalog state changed at clock %d) and the scenario reached quiescence after %d round(s) (tasks Running, a later sentinel row accepted on every live stream, a later partition created downstream), but no successful drop call for it ever arrived", name, o.shards, d.Order, x.metaAt[objKey(d.Coll, d.Part)], res.rounds))
			}
		}
	}
	// rows of a dropped object appended after its drop call arrived must not be accepted
	ak := x.acks()
	for o, t0 := range firstCall {
		for _, d := range sent {
			if d.Kind != "insert" || d.Coll != o.ci || (o.pi >= 0 && d.Part != o.pi) || d.Before <= t0 {
				continue
			}
			if a := ak[d.UID]; len(a) > 0 {
				once("C04/e2e-data-for-dropped-object-after-drop-request", fmt.Sprintf("%s.%s.%s", o.db, o.coll, o.part), fmt.Sprintf("row uid=%d (collection %s.%s shard %d partition index %d) appended at clock %d, after the drop call for %s.%s.%s had arrived at clock %d, was accepted downstream at clock %d", d.UID, o.db, o.coll, d.Shard, d.Part, d.Before, o.db, o.coll, o.part, t0, a[0].clock))
			}
		}
	}
	res.decided = res.inconclusive == ""
	var cl []c04Call
	for _, c := range calls {
		if c.Method == "DropPartition" || c.Method == "DropCollection" || len(res.vios) > 0 {
			cl = append(cl, *c)
		}
	}
	res.replay = map[string]any{"scenario": x.sc, "sent": sent, "downstream_ddl_calls": cl, "events": c04TailEvents(evs, 400), "child_log_tail": x.s.tailChildLog(2500)}
	if os.Getenv("C04S_DEBUG") != "" {
		b, _ := json.MarshalIndent(map[string]any{"inconclusive": res.inconclusive, "violations": fmt.Sprint(res.vios), "replay": res.replay, "all_events": evs}, "", " ")
		_ = os.WriteFile(x.s.dir+"/debug.json", b, 0o644)
	}
}

func okText(c *c04Call) string {
	if c.OK {
		return "ok"
	}
	return c.Err
}

func (x *c04Run) allChildLogs() string {
	var sb strings.Builder
	for i := 1; i <= x.curInc(); i++ {
		b, err := os.ReadFile(fmt.Sprintf("%s/child-%d.log", x.s.dir, i))
		if err == nil {
			sb.Write(b)
		}
	}
	return sb.String()
}

// c04TailEvents keeps control events and the last n others (store reads and ack floods dropped).
func c04TailEvents(all []sevt, n int) []sevt {
	var ctl, rest []sevt
	for _, e := range all {
		switch e.Kind {
		case "api":
			if strings.HasPrefix(e.API, "get ") {
				continue
			}
			ctl = append(ctl, e)
		case "kill", "child-start", "child-exit", "note":
			ctl = append(ctl, e)
		case "store":
			if e.Store.Op == "get" || e.Store.Phase == "after" {
				continue
			}
			rest = append(rest, e)
		default:
			hasData := false
			for _, t := range e.Types {
				if t != "TimeTick" && t != "Replicate" {
					hasData = true
				}
			}
			if hasData {
				rest = append(rest, e)
			}
		}
	}
	if len(rest) > n {
		rest = rest[len(rest)-n:]
	}
	out := append(ctl, rest...)
	sort.Slice(out, func(i, j int) bool { return out[i].Clock < out[j].Clock })
	return out
}

var _ = commonpb.MsgType_DropPartition
var _ = json.Marshal

// ---------------------------------------------------------------------------------------------------------------
// the run

func runC04S(tier string) *vf.Run {
	run := vf.NewRun("C04", tier, "exploration")
	run.Rule = "end-to-end part of C04 (whole real service in a killable child between an embedded etcd, a file message queue and a fake downstream Milvus over gRPC). A scenario is a pure function of (seed, index): 3 source physical channels; a never-dropped collection default.zc for sentinels; databases default and db_b (db_b pre-created downstream), each with 1-2 collections (the first of each database has the SAME name c0, so a partition drop routed to the wrong database hits a real object; a collection that is dropped as a whole gets a name of its own) of 1-3 shards and 1-3 user partitions, created in a seeded order; ONE task over all databases (db_collections {\"*\": [{\"name\": \"*\"}]}); a pump ticks every channel every 100 ms and keeps the TSO key ahead. Kinds: K1 objects exist before the task (start-up scan), then a partition of a collection whose database is / is not the last in the catalog listing is dropped; K2 objects created while the task runs (watch), incl. partitions created right after their collection and one created later; K3 collection drop (+ a partition of another collection); K4 drop while paused / while the process is down (SIGKILL + restart), drop delivered and THEN pause+resume / kill+restart, stop placed between the shards' drop messages; K5 pause / resume / delete / restart without any upstream drop; K6 collection drop whose event meets a full api-event queue (a held CreatePartition reply, ten queued events of another task's start-up scan) while its task is paused and two other tasks keep the target's reader alive; K7 two tasks of one target (one per database): the one that owns a collection with user partitions is paused and resumed while the other keeps the target's reader objects alive, THEN a partition registered before the pause (or the whole collection) is dropped. A drop = the drop message appended on every shard in a seeded order (half of the drops with 0.4-0.8 s between the shards) with trailing rows on the not-yet-dropped shards, then the catalog state change. Non-trivial = the scenario ran to its end and was decided (quiescent); distinct by (kind, sub-kind, object type, shards, shard order, database position, case)."
	run.Assumptions = []string{
		"clock: one logical counter in the supervisor; a downstream DDL call is stamped when it arrives at the fake (before it is applied), an upstream message carries a stamp taken before and one taken after it was appended; 'before every shard' is judged against the BEFORE stamps, 'row after the drop call' against rows whose BEFORE stamp is later than the call",
		"upstream order of a drop: drop message on every shard first, catalog state (Dropped) afterwards; the CDC's etcd watch ignores non-Created states, so the catalog state only matters to a reader (re)started later; appends and ticks are serialised so that timestamps never go backwards on a channel",
		"'missing' is claimed only after logical quiescence: every task Running, a sentinel row appended after the last step accepted on every live stream by the current incarnation, for a dropped collection a drop-collection message accepted on each of its downstream channels since the readers were last started, and a partition created afterwards replicated downstream (the api events of a target pass one FIFO queue and one loop); up to three such rounds; every wait has a 60 s watchdog whose firing makes the case inconclusive",
		"a call repeated by a later process incarnation after SIGKILL is tolerated (counted as redelivered_after_kill); two successful calls within one incarnation (pause/resume included) are not",
		"a task that pauses itself (error path) makes its case inconclusive here; such failures belong to C06",
	}
	scens := genC04Scens(run)
	// a paused task leaves one spinning goroutine per closed barrier behind (data_barrier.go never leaves its loop
	// once CloseChan is closed): cap what one child can burn, the children inherit the environment
	if os.Getenv("GOMAXPROCS") == "" {
		os.Setenv("GOMAXPROCS", "4")
	}
	if only := os.Getenv("C04S_ONLY"); only != "" {
		var sel []*c04Scen
		for _, sc := range scens {
			if fmt.Sprint(sc.Idx) == only || sc.Kind == only || sc.Kind+"/"+sc.Sub == only {
				sel = append(sel, sc)
			}
		}
		scens = sel
	}
	if *fCase >= 0 {
		var sel []*c04Scen
		for _, sc := range scens {
			if sc.Idx == *fCase {
				sel = append(sel, sc)
			}
		}
		scens = sel
	}
	var smu sync.Mutex
	sampled := map[string]bool{}
	parallel(len(scens), 6, func(i int) {
		sc := scens[i]
		r := runC04Case(sc, fmt.Sprintf("c04s-%d", sc.Idx))
		if r.inconclusive != "" && len(r.vios) == 0 {
			// an undecided scenario is tried once more in a fresh world before it is counted as inconclusive
			fmt.Fprintln(os.Stderr, "C04S-RETRY "+fmt.Sprintf("[case %d %s/%s] ", sc.Idx, sc.Kind, sc.Sub)+r.inconclusive)
			run.Count("scenarios_retried", 1)
			r = runC04Case(sc, fmt.Sprintf("c04s-%d-retry", sc.Idx))
		}
		run.Eval(1)
		tag := fmt.Sprintf("[case %d %s/%s] ", sc.Idx, sc.Kind, sc.Sub)
		run.Count("scenarios_"+sc.Kind, 1)
		if r.inconclusive != "" {
			fmt.Fprintln(os.Stderr, "C04S-INCONCLUSIVE "+tag+r.inconclusive)
			run.Inconclusive(tag + r.inconclusive)
			run.Count("inconclusive_scenarios", 1)
		}
		if r.selfPaused {
			run.Count("task_paused_itself", 1)
		}
		if r.crashed {
			run.Count("cdc_process_crashed", 1)
		}
		for _, v := range r.vios {
			run.Violate(v.key, tag+v.desc, r.replay)
		}
		run.Count("drop_calls_observed", r.dropCalls)
		run.Count("drop_calls_failed", r.failedCalls)
		run.Count("redelivered_after_kill", r.redelivered)
		if r.decided {
			run.Count("decided_scenarios", 1)
			run.Count("decided_"+sc.Kind, 1)
			for _, d := range sc.Drops {
				cd := sc.Sc.Colls[d.Coll]
				typ := "partition"
				if d.Part < 0 {
					typ = "collection"
				}
				run.Count("decided_drops_"+typ, 1)
				run.Distinct("shard_orders", fmt.Sprint(d.Order))
				run.Distinct("shard_counts", fmt.Sprint(len(d.Order)))
				run.Distinct("databases", cd.DB)
				pos := "not-last-listed-db"
				if cd.DB == sc.LastListedDB {
					pos = "last-listed-db"
				}
				run.Count("dropped_in_"+pos, 1)
				run.Nontrivial(fmt.Sprintf("%s/%s/%s/%d/%v/%s/%d", sc.Kind, sc.Sub, typ, len(d.Order), d.Order, pos, sc.Idx))
			}
			if len(sc.Drops) == 0 {
				run.Count("decided_without_drop", 1)
				run.Nontrivial(fmt.Sprintf("%s/%s/none/%d", sc.Kind, sc.Sub, sc.Idx))
			}
			smu.Lock()
			if !sampled[sc.Kind] && len(sampled) < 2 && len(sc.Drops) > 0 {
				sampled[sc.Kind] = true
				var calls any
				if r.replay != nil {
					calls = r.replay["downstream_ddl_calls"]
				}
				run.Sample(map[string]any{"scenario": sc, "downstream_drop_calls": calls, "quiescence_rounds": r.rounds})
			}
			smu.Unlock()
		}
	})
	n := len(scens)
	run.Extra("scenarios", n)
	if os.Getenv("C04S_ONLY") == "" && *fCase < 0 {
		run.Floor("decided_scenarios", max(1, n/3))
		run.Floor("drop_calls_observed", max(1, n/3))
		run.Floor("decided_drops_partition", max(1, n/5))
		run.Floor("decided_drops_collection", max(1, n/8))
		run.Floor("decided_K1", max(1, n/15))
		run.Floor("decided_K4", max(1, n/8))
		run.Floor("decided_K5", 1)
		run.Floor("shard_orders", run.Pick(2, 3))
		run.Floor("shard_counts", 2)
		run.Floor("databases", 2)
		run.Floor("dropped_in_not-last-listed-db", max(1, n/8))
		if run.Thorough() {
			run.Floor("decided_K6", 1)
		}
	} else {
		run.Floor("decided_scenarios", 1)
	}
	if p := os.Getenv("C04S_DUMP"); p != "" {
		if err := run.Dump(p); err != nil {
			fmt.Fprintln(os.Stderr, "C04S_DUMP:", err)
		}
	}
	return run
}
