package main

// C10 helper: a MetaStoreFactory decorator that can be switched to "ghost" mode. In ghost mode reads still reach the
// real store but every write (put / delete / txn commit) succeeds WITHOUT touching it. The rig uses it to model
// the exit of a CDC process inside this process: the old MetaCDC instance is told to delete all of its tasks while
// its store is a ghost, which stops the task's readers (goroutines) and leaves the persisted metadata exactly as
// it was for the "restarted" instance that is built next on the same meta root.

import (
	"context"
	"sync/atomic"

	coreapi "github.com/zilliztech/milvus-cdc/core/api"
	serverapi "github.com/zilliztech/milvus-cdc/server/api"
	"github.com/zilliztech/milvus-cdc/server/model/meta"
)

type c10Ghost struct {
	inner serverapi.MetaStoreFactory
	ghost atomic.Bool
}

type c10GhostTxn struct{ n int }

func (g *c10Ghost) GetTaskInfoMetaStore(ctx context.Context) serverapi.MetaStore[*meta.TaskInfo] {
	return &c10GhostStore[*meta.TaskInfo]{g, g.inner.GetTaskInfoMetaStore(ctx)}
}

func (g *c10Ghost) GetTaskCollectionPositionMetaStore(ctx context.Context) serverapi.MetaStore[*meta.TaskCollectionPosition] {
	return &c10GhostStore[*meta.TaskCollectionPosition]{g, g.inner.GetTaskCollectionPositionMetaStore(ctx)}
}

func (g *c10Ghost) GetReplicateStore(ctx context.Context) coreapi.ReplicateStore {
	return g.inner.GetReplicateStore(ctx)
}

func (g *c10Ghost) Txn(ctx context.Context) (any, func(err error) error, error) {
	if g.ghost.Load() {
		return &c10GhostTxn{}, func(err error) error { return err }, nil
	}
	return g.inner.Txn(ctx)
}

type c10GhostStore[M any] struct {
	g *c10Ghost
	s serverapi.MetaStore[M]
}

func (s *c10GhostStore[M]) Put(ctx context.Context, m M, txn any) error {
	if s.g.ghost.Load() {
		return nil
	}
	return s.s.Put(ctx, m, txn)
}

func (s *c10GhostStore[M]) Get(ctx context.Context, m M, txn any) ([]M, error) {
	if _, isGhostTxn := txn.(*c10GhostTxn); isGhostTxn {
		return nil, nil
	}
	return s.s.Get(ctx, m, txn)
}

func (s *c10GhostStore[M]) Delete(ctx context.Context, m M, txn any) error {
	if s.g.ghost.Load() {
		return nil
	}
	if _, isGhostTxn := txn.(*c10GhostTxn); isGhostTxn {
		return nil
	}
	return s.s.Delete(ctx, m, txn)
}
