package main

// Supervisor side of the system rig: owns the world (embedded etcd, file-backed message queue, fake downstream
// Milvus servers, the upstream simulator), spawns / kills CDC child processes, drives them over HTTP, and keeps
// one event log with a single logical clock: downstream acks (logged when the fake ACCEPTS a ReplicateMessage,
// before it replies), store calls (announced by the child before it performs them), API calls, kills.

import (
	"bufio"
	"bytes"
	"encoding/json"
	"fmt"
	"io"
	"net"
	"net/http"
	"os"
	"os/exec"
	"path/filepath"
	"strings"
	"sync"
	"sync/atomic"
	"syscall"
	"time"

	"github.com/milvus-io/milvus/pkg/mq/msgstream"

	"verifharness/internal/fakemilvus"
	"verifharness/internal/memq"
	"verifharness/internal/sysboot"
)

type sevt struct {
	Clock  int64               `json:"t"`
	Kind   string              `json:"k"` // ack | nack | store | api | child-start | child-exit | kill | note
	Inc    int                 `json:"inc"`
	Target int                 `json:"target,omitempty"`
	Chan   string              `json:"chan,omitempty"`
	EndID  uint64              `json:"end_id,omitempty"`
	UIDs   []int64             `json:"uids,omitempty"`
	Types  []string            `json:"types,omitempty"`
	TSs    []uint64            `json:"tss,omitempty"` // ack: timestamp of every message of the accepted pack
	Store  *sysboot.StoreEvent `json:"store,omitempty"`
	API    string              `json:"api,omitempty"`
	Code   int                 `json:"code,omitempty"`
	Note   string              `json:"note,omitempty"`
}

type super struct {
	dir   string
	w     *sysboot.World
	clock atomic.Int64
	mu    sync.Mutex
	evs   []sevt
	inc   int // incarnation counter

	// store decision plan: consulted for every announced store call
	storeDecide func(ev sysboot.StoreEvent) sysboot.StoreDecision
	evLn        net.Listener

	child     *exec.Cmd
	childAddr string
	childLog  string
	childDone chan struct{}
	childOut  *os.File
}

func (s *super) tick() int64 { return s.clock.Add(1) }

func (s *super) log(e sevt) int64 {
	s.mu.Lock()
	defer s.mu.Unlock()
	e.Clock = s.tick()
	e.Inc = s.inc
	s.evs = append(s.evs, e)
	return e.Clock
}

func (s *super) events() []sevt {
	s.mu.Lock()
	defer s.mu.Unlock()
	return append([]sevt{}, s.evs...)
}

func newSuper(dir string, targets int) (*super, error) {
	w, err := sysboot.NewWorld(sysboot.WorldOptions{Dir: dir, Targets: targets, FileBroker: true})
	if err != nil {
		return nil, err
	}
	s := &super{dir: dir, w: w}
	for ti, t := range w.Targets {
		ti := ti
		t.OnReplicate(func(r *fakemilvus.ReplicateRecord) {
			e := sevt{Kind: "ack", Target: ti, Chan: r.Channel}
			if p := r.LastEndPosition(); p != nil {
				e.EndID = memq.DecodeID(p.GetMsgID())
			}
			for _, m := range r.Msgs {
				if m == nil {
					continue
				}
				e.Types = append(e.Types, m.Type().String())
				e.UIDs = append(e.UIDs, uidOf(m))
				e.TSs = append(e.TSs, m.BeginTs())
			}
			s.log(e)
		})
	}
	ln, err := net.Listen("tcp", "127.0.0.1:0")
	if err != nil {
		w.Close()
		return nil, err
	}
	s.evLn = ln
	mux := http.NewServeMux()
	mux.HandleFunc("/store", func(rw http.ResponseWriter, r *http.Request) {
		var ev sysboot.StoreEvent
		if json.NewDecoder(r.Body).Decode(&ev) != nil {
			return
		}
		cp := ev
		s.log(sevt{Kind: "store", Store: &cp})
		var d sysboot.StoreDecision
		s.mu.Lock()
		f := s.storeDecide
		s.mu.Unlock()
		if f != nil {
			d = f(ev)
		}
		if d.Kill {
			s.log(sevt{Kind: "kill", Note: fmt.Sprintf("self-kill at store call #%d %s %s %s", ev.Seq, ev.Phase, ev.Op, ev.Kind)})
		}
		_ = json.NewEncoder(rw).Encode(d)
	})
	go func() { _ = http.Serve(ln, mux) }()
	return s, nil
}

// uidOf extracts the unique id the upstream simulator put into the message base (-1 for ticks).
func uidOf(m msgstream.TsMsg) int64 {
	switch x := m.(type) {
	case *msgstream.InsertMsg:
		return x.GetBase().GetMsgID()
	case *msgstream.DeleteMsg:
		return x.GetBase().GetMsgID()
	case *msgstream.DropCollectionMsg:
		return x.GetBase().GetMsgID()
	case *msgstream.DropPartitionMsg:
		return x.GetBase().GetMsgID()
	}
	return -1
}

func (s *super) setStoreDecide(f func(ev sysboot.StoreEvent) sysboot.StoreDecision) {
	s.mu.Lock()
	s.storeDecide = f
	s.mu.Unlock()
}

type childOpts struct {
	PackCount, PackTimer, SrcChannels int
	PackMaxKB                         int  // packer MaxMsgSize in KB (0: default)
	TTIntervalMs                      int  // source TimeTickInterval in ms (0: the world's default)
	NoStoreEvents                     bool // the child does not announce its store calls to the supervisor
	DebugLog                          bool
}

// startChild launches a CDC process on the world's etcd / mq directory and waits for its HTTP endpoint.
func (s *super) startChild(o childOpts) error {
	s.mu.Lock()
	s.inc++
	inc := s.inc
	s.mu.Unlock()
	if o.PackCount == 0 {
		o.PackCount = 1
	}
	if o.PackTimer == 0 {
		o.PackTimer = 50
	}
	if o.SrcChannels == 0 {
		o.SrcChannels = 4
	}
	s.childLog = filepath.Join(s.dir, fmt.Sprintf("child-%d.log", inc))
	lf, err := os.Create(s.childLog)
	if err != nil {
		return err
	}
	args := []string{"-cdc-child", "-etcd", s.w.EtcdEndpoint, "-mqdir", filepath.Join(s.dir, "mq"), "-metaroot", s.w.MetaRoot,
		"-parent", s.evLn.Addr().String(), "-pack-count", fmt.Sprint(o.PackCount), "-pack-timer", fmt.Sprint(o.PackTimer), "-src-channels", fmt.Sprint(o.SrcChannels)}
	if o.DebugLog {
		args = append(args, "-debug-log")
	}
	if o.PackMaxKB > 0 {
		args = append(args, "-pack-maxkb", fmt.Sprint(o.PackMaxKB))
	}
	if o.TTIntervalMs > 0 {
		args = append(args, "-tt-interval", fmt.Sprint(o.TTIntervalMs))
	}
	if o.NoStoreEvents {
		for i := range args {
			if args[i] == "-parent" {
				args[i+1] = ""
			}
		}
	}
	cmd := exec.Command(os.Args[0], args...)
	cmd.Env = append(os.Environ(), "GORACE=halt_on_error=0 exitcode=0 log_path="+filepath.Join(os.Getenv("VERIF_SCRATCH"), "race"))
	pr, pw, _ := os.Pipe()
	cmd.Stdout = io.MultiWriter(lf, pw)
	cmd.Stderr = lf
	if err := cmd.Start(); err != nil {
		return err
	}
	s.child, s.childOut, s.childDone = cmd, lf, make(chan struct{})
	done := s.childDone
	go func() {
		err := cmd.Wait()
		pw.Close()
		lf.Close()
		note := "exit 0"
		if err != nil {
			note = err.Error()
		}
		s.log(sevt{Kind: "child-exit", Note: note})
		close(done)
	}()
	ready := make(chan string, 1)
	go func() {
		sc := bufio.NewScanner(pr)
		sc.Buffer(make([]byte, 1<<20), 1<<20)
		sent := false
		for sc.Scan() {
			l := sc.Text()
			if !sent && strings.HasPrefix(l, "CHILD-READY ") {
				ready <- strings.TrimPrefix(l, "CHILD-READY ")
				sent = true
			}
			if !sent && strings.HasPrefix(l, "CHILD-FAILED") {
				ready <- ""
				sent = true
			}
		}
		if !sent {
			ready <- ""
		}
	}()
	select {
	case addr := <-ready:
		if addr == "" {
			return fmt.Errorf("child did not come up (see %s)", s.childLog)
		}
		s.childAddr = addr
	case <-time.After(120 * time.Second):
		_ = cmd.Process.Kill()
		return fmt.Errorf("child start watchdog (see %s)", s.childLog)
	}
	s.log(sevt{Kind: "child-start", Note: s.childAddr})
	return nil
}

func (s *super) childAlive() bool {
	if s.childDone == nil {
		return false
	}
	select {
	case <-s.childDone:
		return false
	default:
		return true
	}
}

// killChild delivers SIGKILL and waits for the process to be gone.
func (s *super) killChild(why string) {
	if s.child == nil || !s.childAlive() {
		return
	}
	s.log(sevt{Kind: "kill", Note: why})
	_ = s.child.Process.Signal(syscall.SIGKILL)
	<-s.childDone
}

func (s *super) waitChildExit(d time.Duration) bool {
	select {
	case <-s.childDone:
		return true
	case <-time.After(d):
		return false
	}
}

var httpc = &http.Client{Timeout: 120 * time.Second}

// api sends a request to the child's /cdc endpoint and logs it (call before, reply after).
func (s *super) api(t string, data any) sysboot.Response {
	body, _ := json.Marshal(map[string]any{"request_type": t, "request_data": data})
	s.log(sevt{Kind: "api", API: t + " call"})
	r := s.postRaw(http.MethodPost, body)
	s.log(sevt{Kind: "api", API: t + " reply", Code: r.Code, Note: r.Message})
	return r
}

func (s *super) postRaw(method string, body []byte) sysboot.Response {
	req, _ := http.NewRequest(method, "http://"+s.childAddr+"/cdc", bytes.NewReader(body))
	resp, err := httpc.Do(req)
	if err != nil {
		return sysboot.Response{Message: "transport: " + err.Error()}
	}
	defer resp.Body.Close()
	raw, _ := io.ReadAll(resp.Body)
	r := sysboot.Response{HTTPStatus: resp.StatusCode, Raw: raw}
	var m struct {
		Code    int            `json:"code"`
		Message string         `json:"message"`
		Data    map[string]any `json:"data"`
	}
	if json.Unmarshal(raw, &m) == nil {
		r.JSONOK, r.Code, r.Message, r.Data = true, m.Code, m.Message, m.Data
	}
	return r
}

func (s *super) getJSON(path string, out any) error {
	resp, err := httpc.Get("http://" + s.childAddr + path)
	if err != nil {
		return err
	}
	defer resp.Body.Close()
	return json.NewDecoder(resp.Body).Decode(out)
}

func (s *super) close() {
	s.killChild("shutdown")
	if s.evLn != nil {
		s.evLn.Close()
	}
	s.w.Close()
}

// tailChildLog returns the end of the current child's log (panic section preferred).
func (s *super) tailChildLog(n int) string {
	b, err := os.ReadFile(s.childLog)
	if err != nil {
		return ""
	}
	t := string(b)
	for _, mark := range []string{"panic:", "fatal error:"} {
		if i := strings.Index(t, mark); i >= 0 {
			t = t[i:]
			if len(t) > 4000 {
				t = t[:4000]
			}
			return t
		}
	}
	if len(t) > n {
		t = t[len(t)-n:]
	}
	return t
}
