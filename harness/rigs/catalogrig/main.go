// catalogrig: the real reader.EtcdOp and reader.CollectionReader against an embedded etcd filled by the catalog
// generator (internal/catalog): C13 (nothing missed or double-started at task start) and C15 (start-up snapshot
// of dropped objects).
package main

import (
	"context"
	"flag"
	"fmt"
	"os"
	"path/filepath"
	"sync"
	"time"

	"github.com/sasha-s/go-deadlock"
	clientv3 "go.etcd.io/etcd/client/v3"

	"github.com/zilliztech/milvus-cdc/core/api"
	"github.com/zilliztech/milvus-cdc/core/config"
	"github.com/zilliztech/milvus-cdc/core/reader"

	"verifharness/internal/etcdbox"
	"verifharness/internal/vf"
)

func main() {
	deadlock.Opts.Disable = true
	prop := flag.String("prop", "", "property id")
	tier := flag.String("tier", "quick", "quick|thorough")
	flag.Parse()
	var run *vf.Run
	switch *prop {
	case "C15":
		run = runC15(*tier)
	case "C13":
		run = runC13(*tier)
	default:
		fmt.Fprintln(os.Stderr, "catalogrig: unknown property", *prop)
		os.Exit(64)
	}
	vf.CollectRaces(run)
	if p := os.Getenv("VERIF_MERGE_DUMP"); p != "" && *prop == "C13" {
		// the manager half of the duplicate-notification clause (reader rig, profile C13D) ran first and dumped its Run
		if err := run.MergePrefixed(p, "manager_"); err != nil {
			run.Inconclusive("the manager part (reader rig) left no result: " + err.Error())
		}
		run.Floor("manager_cases_quiescent", run.Pick(24, 200))
		run.Floor("manager_simultaneous_calls", run.Pick(120, 1000))
		run.Floor("manager_duplicate_start_answered_with_error", 1)
		run.Rule += " PLUS the manager part (counters manager_*, reader rig profile C13D): the REAL channel manager under duplicated notifications (about half of the StartReadCollection / AddPartition calls made twice at the same time, the anchor collection announced again while data flows, downstream lookups taking 0-1.5 ms): of two simultaneous calls at least one succeeds, no source vchannel is registered twice, the replicated stream is unchanged; the error with which the manager answers a start for a collection it already replicates is counted - the recording manager of this rig answers a second start the same way, and an error on the reader's error channel (the server pauses the task for it) after a double notification is a violation here."
	}
	os.Exit(run.Finish(vf.Out()))
}

// ---- shared plumbing ----

func scratchDir() string {
	if d := os.Getenv("VERIF_SCRATCH"); d != "" {
		return d
	}
	d := filepath.Join(vf.Root(), ".scratch", fmt.Sprintf("catalogrig-%d", os.Getpid()))
	_ = os.MkdirAll(d, 0o755)
	return d
}

func startBox(run *vf.Run) *etcdbox.Box {
	box, err := etcdbox.Start(filepath.Join(scratchDir(), "etcd"))
	if err != nil {
		run.Inconclusive("embedded etcd did not start: " + err.Error())
		return nil
	}
	return box
}

// retry settings every config of the code under test gets: whole seconds, 0 would mean a two-day default
var retrySettings = config.RetrySettings{RetryTimes: 3, InitBackOff: 1, MaxBackOff: 1}

// newOp builds the real EtcdOp on the embedded etcd; target nil = the Kafka configuration.
func newOp(box *etcdbox.Box, root string, target api.TargetAPI) (*reader.EtcdOp, error) {
	op, err := reader.NewEtcdOp(config.EtcdServerConfig{
		Address: []string{box.Endpoint}, RootPath: root, MetaSubPath: "meta",
	}, "_default", config.EtcdRetryConfig{Retry: retrySettings}, target)
	if err != nil {
		return nil, err
	}
	return op.(*reader.EtcdOp), nil
}

func closeOp(op *reader.EtcdOp) {
	if op == nil {
		return
	}
	op.VerifWatchPool().Release()
	_ = op.VerifEtcdClient().Close()
}

func deletePrefix(cli *clientv3.Client, root string) {
	ctx, cancel := context.WithTimeout(context.Background(), 20*time.Second)
	defer cancel()
	_, _ = cli.Delete(ctx, root+"/", clientv3.WithPrefix())
}

// parallel runs f(i) for i in [0,n) on w workers.
func parallel(n, w int, f func(i int)) {
	var wg sync.WaitGroup
	ch := make(chan int)
	for k := 0; k < w; k++ {
		wg.Add(1)
		go func() {
			defer wg.Done()
			for i := range ch {
				f(i)
			}
		}()
	}
	for i := 0; i < n; i++ {
		ch <- i
	}
	close(ch)
	wg.Wait()
}
