package main

// C15 — start-up snapshot of dropped objects gives correct skip horizons.
//
// Real code: reader.EtcdOp.GetAllDroppedObj() on an embedded etcd filled by catalog.GenSnapshot, once with a
// fake api.TargetAPI (GetDatabaseName answers like reader.TargetClient: a database name that is not the
// tombstone marker comes back unchanged, the marker is resolved to the first downstream database that holds
// a collection of that name, else util.NotFoundDatabase) and once with a nil target (Kafka configuration).
//
// Oracle: a reference table computed from the generated catalog by set logic over the table's string keys
// (util.Get*InfoKeys, the contract with the writer):
//   group(K)   = all readable incarnations whose key is K, split into dropped (state Dropping/Dropped) and
//                live (state Creating/Created, and for a partition: in a live collection);
//   entry K exists  <=>  dropped(K) non-empty;
//   live(K) empty   =>  value == ComposeTS(now_ms, 0) - 1, now taken from the TSO bytes the harness wrote;
//   live(K) present =>  value <  create time of every live member (a live object is never skippable) and
//                       value >= create time of the dropped members (a horizon before the dropped object even
//                       existed cannot cover its drop);
//   database entry T <=> a tombstoned source database has a readable collection that the target still holds in T.
// Tolerated: tombstoned objects (nothing readable) give nothing; a partition in state Created below a dropped
// collection ("shadow") is neither live nor dropped and makes the value of its key unspecified; distinct
// objects sharing a key (db_coll_part is not injective) are one group, and only "a live member is skippable"
// is a finding for them; with a nil target objects of tombstoned databases are unspecified (no downstream to
// ask) and may appear under the tombstone marker name.

import (
	"context"
	"fmt"
	"os"
	"sort"
	"strings"
	"sync/atomic"
	"time"

	"github.com/zilliztech/milvus-cdc/core/api"
	"github.com/zilliztech/milvus-cdc/core/reader"
	"github.com/zilliztech/milvus-cdc/core/util"

	"verifharness/internal/catalog"
	"verifharness/internal/etcdbox"
	"verifharness/internal/vf"
)

type fakeTarget struct {
	api.DefaultTargetAPI
	cat   *catalog.Catalog
	calls atomic.Int64
}

func (f *fakeTarget) GetDatabaseName(ctx context.Context, collectionName, databaseName string) (string, error) {
	f.calls.Add(1)
	if databaseName != reader.TomeObject {
		return databaseName, nil
	}
	if n, ok := f.cat.DownstreamLookup(collectionName); ok {
		return n, nil
	}
	return "", util.NotFoundDatabase
}

type member struct {
	Obj    string `json:"obj"` // db/collection[/partition] by name: distinct tuples in one group = key collision
	Inc    string `json:"inc"` // ids and state
	Create uint64 `json:"create"`
}

type group struct {
	Dropped, Live, Shadow []member
}

func (g *group) collision() bool {
	t := ""
	for _, l := range [][]member{g.Dropped, g.Live, g.Shadow} {
		for _, m := range l {
			if t == "" {
				t = m.Obj
			} else if t != m.Obj {
				return true
			}
		}
	}
	return false
}

type refTables struct {
	DB, Coll, Part map[string]*group
	// keys that may or may not be present (objects the statement does not speak about)
	TolColl, TolPart map[string]bool
}

func grp(m map[string]*group, k string) *group {
	g := m[k]
	if g == nil {
		g = &group{}
		m[k] = g
	}
	return g
}

// reference computes the tables. withTarget=false: nil target. forcePartDB != nil: every partition is attributed
// to that database name (only used to name a violation, never to decide one).
func reference(cat *catalog.Catalog, s catalog.Snap, withTarget bool, forcePartDB *string) refTables {
	r := refTables{DB: map[string]*group{}, Coll: map[string]*group{}, Part: map[string]*group{},
		TolColl: map[string]bool{}, TolPart: map[string]bool{}}
	dbs := map[int64]catalog.DB{}
	for _, d := range s.DBs {
		dbs[d.ID] = d
	}
	// effective database name of a collection: "", false = the statement gives it no entry (or none is defined)
	eff := func(co catalog.Coll) (name string, ok bool, unspecified bool) {
		d, have := dbs[co.DBID]
		if !have {
			return "", false, false
		}
		if !d.Tomb {
			return d.Name, true, false
		}
		if !withTarget {
			return "", false, true
		}
		n, found := cat.DownstreamLookup(co.Name)
		return n, found, false
	}
	colls := map[int64]catalog.Coll{}
	for _, co := range s.Colls {
		colls[co.ID] = co
		if !co.State.Visible() {
			continue
		}
		db, ok, unspec := eff(co)
		if unspec {
			_, k := util.GetCollectionInfoKeys(co.Name, reader.TomeObject)
			r.TolColl[k] = true
			continue
		}
		if !ok {
			continue
		}
		d := dbs[co.DBID]
		if d.Tomb {
			// gone upstream, still present downstream in database db
			_, dk := util.GetDBInfoKeys(db)
			g := grp(r.DB, dk)
			g.Dropped = append(g.Dropped, member{Obj: db, Inc: fmt.Sprintf("source db %d (tombstoned), via collection %s", d.ID, co.Name), Create: d.CreatedTS})
		}
		_, k := util.GetCollectionInfoKeys(co.Name, db)
		m := member{Obj: db + "/" + co.Name, Inc: fmt.Sprintf("db%d/%d:%s", co.DBID, co.ID, co.State), Create: co.CreateTS}
		g := grp(r.Coll, k)
		if co.State.DroppedLike() {
			g.Dropped = append(g.Dropped, m)
		} else {
			g.Live = append(g.Live, m)
		}
	}
	// live source databases are the live namesakes of database entries
	for _, d := range s.DBs {
		if d.Tomb {
			continue
		}
		_, dk := util.GetDBInfoKeys(d.Name)
		if g, ok := r.DB[dk]; ok {
			g.Live = append(g.Live, member{Obj: d.Name, Inc: fmt.Sprintf("source db %d (live)", d.ID), Create: d.CreatedTS})
		}
	}
	for _, p := range s.Parts {
		if !p.State.Visible() {
			continue
		}
		co, have := colls[p.CollID]
		if !have || !co.State.Visible() {
			continue // the collection's name is not readable: the partition cannot be named
		}
		db, ok, unspec := eff(co)
		if forcePartDB != nil {
			if _, have := dbs[co.DBID]; !have {
				continue
			}
			db, ok, unspec = *forcePartDB, true, false
		}
		if unspec {
			_, k := util.GetPartitionInfoKeys(p.Name, co.Name, reader.TomeObject)
			r.TolPart[k] = true
			continue
		}
		if !ok {
			continue
		}
		_, k := util.GetPartitionInfoKeys(p.Name, co.Name, db)
		m := member{Obj: db + "/" + co.Name + "/" + p.Name, Inc: fmt.Sprintf("coll %d:%s/part %d:%s", co.ID, co.State, p.ID, p.State), Create: p.CreateTS}
		g := grp(r.Part, k)
		switch {
		case p.State.DroppedLike():
			g.Dropped = append(g.Dropped, m)
		case co.State.Live():
			g.Live = append(g.Live, m)
		default:
			g.Shadow = append(g.Shadow, m)
		}
	}
	return r
}

type disc struct {
	Kind   string `json:"kind"` // database | collection | partition
	What   string `json:"what"`
	Key    string `json:"key"`
	Detail string `json:"detail"`
}

// compare checks one observed map against the reference groups.
func compare(kind string, obs map[string]uint64, groups map[string]*group, tol map[string]bool, nowTS uint64) []disc {
	var out []disc
	add := func(what, key, detail string) { out = append(out, disc{kind, what, key, detail}) }
	keys := make([]string, 0, len(groups))
	for k := range groups {
		keys = append(keys, k)
	}
	sort.Strings(keys)
	for _, k := range keys {
		g := groups[k]
		v, present := obs[k]
		if len(g.Dropped) == 0 {
			if present && len(g.Live) > 0 {
				add("entry-for-name-with-only-live-incarnations", k, fmt.Sprintf("value %d; live %+v", v, g.Live))
			}
			continue
		}
		if !present {
			add("entry-missing", k, fmt.Sprintf("dropped incarnations %+v have no entry", g.Dropped))
			continue
		}
		if v > nowTS-1 {
			add("horizon-not-below-now", k, fmt.Sprintf("value %d, now %d", v, nowTS))
			continue
		}
		if len(g.Live) == 0 {
			if len(g.Shadow) == 0 && v != nowTS-1 {
				add("horizon-not-just-below-now", k, fmt.Sprintf("value %d, expected now-1 = %d (now = ComposeTS(ms of the TSO key, 0) = %d); dropped %+v", v, nowTS-1, nowTS, g.Dropped))
			}
			continue
		}
		bad := false
		for _, l := range g.Live {
			if v >= l.Create {
				bad = true
				if g.collision() {
					add("key-collision-makes-live-object-skippable", k, fmt.Sprintf("value %d >= create time %d of live %s (%s); group %+v", v, l.Create, l.Obj, l.Inc, g))
				} else {
					add("horizon-not-before-live-namesake", k, fmt.Sprintf("value %d >= create time %d of live %s (%s); dropped %+v", v, l.Create, l.Obj, l.Inc, g.Dropped))
				}
				break
			}
		}
		if !bad && !g.collision() && len(g.Shadow) == 0 {
			for _, d := range g.Dropped {
				if v < d.Create {
					add("horizon-before-dropped-incarnation-created", k, fmt.Sprintf("value %d < create time %d of the dropped %s (%s); live %+v", v, d.Create, d.Obj, d.Inc, g.Live))
					break
				}
			}
		}
	}
	okeys := make([]string, 0, len(obs))
	for k := range obs {
		okeys = append(okeys, k)
	}
	sort.Strings(okeys)
	for _, k := range okeys {
		if _, ok := groups[k]; ok {
			continue
		}
		if tol[k] {
			continue
		}
		add("entry-for-name-without-dropped-incarnation", k, fmt.Sprintf("value %d; no readable object of the catalog has this key", obs[k]))
	}
	return out
}

// explains: the observed partition table is what attributing every partition to one database name gives: same
// key set as that hypothesis requires, values just below now where the hypothetical group has no live member and
// below now otherwise. Used only to name a violation that the true reference already established.
func explains(obs map[string]uint64, groups map[string]*group, nowTS uint64) bool {
	need := 0
	for k, g := range groups {
		if len(g.Dropped) == 0 {
			continue
		}
		need++
		v, ok := obs[k]
		if !ok || v > nowTS-1 {
			return false
		}
		if len(g.Live) == 0 && len(g.Shadow) == 0 && v != nowTS-1 {
			return false
		}
	}
	return need == len(obs)
}

// someoneElses: at least one readable partition of a readable collection lives in a database whose name is not b.
func someoneElses(s catalog.Snap, b string) bool {
	dbs := map[int64]catalog.DB{}
	for _, d := range s.DBs {
		dbs[d.ID] = d
	}
	colls := map[int64]catalog.Coll{}
	for _, co := range s.Colls {
		colls[co.ID] = co
	}
	for _, p := range s.Parts {
		co, ok := colls[p.CollID]
		if !ok || !p.State.Visible() || !co.State.Visible() {
			continue
		}
		d, ok := dbs[co.DBID]
		if !ok {
			continue
		}
		if d.Tomb || d.Name != b {
			return true
		}
	}
	return false
}

type c15Mode struct {
	name       string
	withTarget bool
}

func runC15(tier string) *vf.Run {
	run := vf.NewRun("C15", tier, "exploration")
	run.Rule = "case = one generated source catalog (1-4 databases live/tombstoned incl. re-created namesakes, 0-6 collection incarnations per database over a pool of 7 names in states Creating/Created/Dropping/Dropped/tombstone, partitions likewise, names with '_' that make db_coll_part keys collide, downstream holding a random part of the tombstoned databases) x target mode {fake TargetAPI, nil}; GetAllDroppedObj of the real EtcdOp is compared as maps with the reference table. Non-trivial = the reference has at least one required entry; distinct by (mode, multiset of (kind, dropped-state, has-live-namesake, database state) cells of the catalog and key shapes)."
	run.Assumptions = []string{
		"the catalog generator is the harness' rendering of rootcoord's etcd layout (key prefixes, protobuf records, tombstone bytes E2 9B BC, TSO key <root>/kv/gid/timestamp = 8 bytes big-endian unix-nanoseconds), taken from etcd_op.go and etcd_op_test.go; generated catalogs keep rootcoord's invariants (one live incarnation per name and it is the newest, ids grow with creation, tombstoned database holds only dropped collections)",
		"the fake TargetAPI.GetDatabaseName answers like reader.TargetClient.GetDatabaseName (first downstream database holding a collection of that name; util.NotFoundDatabase otherwise)",
		"'now' is the millisecond of the TSO bytes written by the harness; 'just below now' is accepted only as ComposeTS(now_ms,0)-1",
	}
	box := startBox(run)
	if box == nil {
		return run
	}
	defer box.Close()
	n := run.Pick(150, 3000)
	only := map[string]bool{} // replay of single catalogs: VERIF_CASE=0,54
	for _, s := range strings.Split(os.Getenv("VERIF_CASE"), ",") {
		if s != "" {
			only[s] = true
		}
	}
	parallel(n, 8, func(i int) {
		if len(only) == 0 || only[fmt.Sprint(i)] {
			c15Case(run, box, i)
		}
	})

	// concurrent-DDL part (c15_ddl.go)
	nd := run.Pick(40, 600)
	parallel(nd, 8, func(i int) {
		if len(only) == 0 {
			c15DDLCase(run, box, i)
		}
	})
	run.Rule += " PLUS the concurrent-DDL part (counters ddl_*): for generated catalogs, a collection and a partition are created again under names that only had dropped incarnations (and the source clock moves on) right after the k-th etcd read of the snapshot, for every k; the snapshot's entry for such a name must be strictly below the new incarnation's creation time."
	run.Floor("ddl_injections", run.Pick(60, 900))
	run.Floor("ddl_collection_entries_judged", run.Pick(20, 300))
	run.Floor("ddl_partition_entries_judged", run.Pick(10, 150))
	// floors at about a third of an unloaded quick run (thorough scales by 20)
	scale := run.Pick(1, 20)
	for _, f := range []struct {
		c string
		n int
	}{
		{"mode_target", 50}, {"mode_nil", 50},
		{"coll_Dropping_live-namesake_db-live", 10}, {"coll_Dropping_no-live_db-live", 10},
		{"coll_Dropped_live-namesake_db-live", 10}, {"coll_Dropped_no-live_db-live", 10},
		{"coll_Dropping_no-live_db-tomb-held-downstream", 10}, {"coll_Dropped_no-live_db-tomb-held-downstream", 10},
		{"coll_in_db_gone_both_sides", 10},
		{"part_Dropping_live-namesake", 10}, {"part_Dropping_no-live", 10},
		{"part_Dropped_live-namesake", 10}, {"part_Dropped_no-live", 10},
		{"db_entries_expected", 10}, {"live_only_names", 50}, {"multi_db_nil_target_catalogs", 15},
		{"entries_compared", 300},
	} {
		run.Floor(f.c, f.n*scale)
	}
	return run
}

func c15Case(run *vf.Run, box *etcdbox.Box, idx int) {
	rnd := vf.Rand(run.Seed, "C15", idx)
	root := fmt.Sprintf("c15-%d-%d", run.Seed, idx)
	var cat *catalog.Catalog
	if idx < len(catalog.FixedSnapshots) {
		cat = catalog.FixedSnapshots[idx](root)
		run.Count("fixed_catalogs", 1)
	} else {
		cat = catalog.GenSnapshot(root, rnd, catalog.GenOptions{RecreatedDBPercent: 25, CollisionPercent: 10, ShortIDs: rnd.Intn(4) == 0})
	}
	ctx, cancel := context.WithTimeout(context.Background(), 60*time.Second)
	defer cancel()
	if err := catalog.Load(ctx, box.Client, cat.RenderAll()); err != nil {
		run.Inconclusive(fmt.Sprintf("case %d: loading the catalog failed: %v", idx, err))
		return
	}
	defer deletePrefix(box.Client, root)
	snap := cat.Snapshot()
	nowTS := catalog.ComposeTS(cat.NowPhysicalMs(), 0)
	liveDBs := 0
	for _, d := range snap.DBs {
		if !d.Tomb {
			liveDBs++
		}
	}
	for _, mode := range []c15Mode{{"target", true}, {"nil-target", false}} {
		run.Eval(1)
		run.Count("mode_"+strings.TrimSuffix(mode.name, "-target"), 1)
		var target api.TargetAPI
		ft := &fakeTarget{cat: cat}
		if mode.withTarget {
			target = ft
		} else if len(snap.DBs) > 1 {
			run.Count("multi_db_nil_target_catalogs", 1)
		}
		op, err := newOp(box, root, target)
		if err != nil {
			run.Inconclusive(fmt.Sprintf("case %d: NewEtcdOp: %v", idx, err))
			continue
		}
		var obs map[string]map[string]uint64
		var panicked any
		func() {
			defer func() { panicked = recover() }()
			obs = op.GetAllDroppedObj()
		}()
		closeOp(op)
		replay := func(extra map[string]any) map[string]any {
			m := map[string]any{"case": idx, "mode": mode.name, "catalog": cat.Summary(), "observed": obs}
			for k, v := range extra {
				m[k] = v
			}
			return m
		}
		if panicked != nil {
			run.Violate("C15/snapshot-panicked", fmt.Sprintf("case %d mode %s: GetAllDroppedObj panicked: %v", idx, mode.name, panicked), replay(nil))
			continue
		}
		ref := reference(cat, snap, mode.withTarget, nil)
		c15Coverage(run, ref, mode, snap)
		dDB := compare("database", obs[util.DroppedDatabaseKey], ref.DB, nil, nowTS)
		dColl := compare("collection", obs[util.DroppedCollectionKey], ref.Coll, ref.TolColl, nowTS)
		dPart := compare("partition", obs[util.DroppedPartitionKey], ref.Part, ref.TolPart, nowTS)
		run.Count("entries_compared", len(obs[util.DroppedDatabaseKey])+len(obs[util.DroppedCollectionKey])+len(obs[util.DroppedPartitionKey]))

		// name the suspected defect precisely: with a nil target the whole partition table equals the reference
		// computed with every partition attributed to one database name B that is not its own
		staleB := ""
		onlyCollision := true
		for _, d := range dPart {
			if d.What != "key-collision-makes-live-object-skippable" {
				onlyCollision = false
			}
		}
		// (differences that are all the recorded key collision need no second explanation: a catalog whose partitions
		// sit in one database also equals the 'everything under database b' reference)
		if !mode.withTarget && len(dPart) > 0 && !onlyCollision {
			cands := []string{reader.TomeObject}
			for _, d := range snap.DBs {
				cands = append(cands, d.Name)
			}
			for _, b := range cands {
				b := b
				if !someoneElses(snap, b) {
					continue
				}
				fr := reference(cat, snap, false, &b)
				if explains(obs[util.DroppedPartitionKey], fr.Part, nowTS) {
					staleB = b
					break
				}
			}
		}
		seen := map[string]bool{}
		report := func(ds []disc) {
			for _, d := range ds {
				key := fmt.Sprintf("C15/%s-%s", d.Kind, d.What)
				if d.What == "key-collision-makes-live-object-skippable" {
					key = "C15/" + d.What // one cause (db_coll_part is not injective), one key
				}
				if d.Kind == "partition" && staleB != "" {
					key = "C15/partition-entry-under-stale-db-name-with-nil-target"
				}
				if seen[key] {
					continue
				}
				seen[key] = true
				desc := fmt.Sprintf("case %d mode %s: %s %s: key %q: %s", idx, mode.name, d.Kind, d.What, d.Key, d.Detail)
				if d.Kind == "partition" && staleB != "" {
					desc = fmt.Sprintf("case %d mode %s: the partition table equals the reference computed with EVERY partition attributed to database %q instead of its own (first difference to the true reference: %s, key %q: %s)", idx, mode.name, staleB, d.What, d.Key, d.Detail)
				}
				run.Violate(key, desc, replay(map[string]any{"discrepancies": ds, "all_partitions_keyed_under": staleB}))
			}
		}
		report(dDB)
		report(dColl)
		report(dPart)
		if idx < 2 {
			run.Sample(map[string]any{"case": idx, "mode": mode.name, "catalog": cat.Summary(), "observed": obs})
		}
	}
}

// c15Coverage counts the cells the floors speak about and records the non-trivial signature.
func c15Coverage(run *vf.Run, ref refTables, mode c15Mode, s catalog.Snap) {
	var sig []string
	required := 0
	dbTomb := map[int64]bool{}
	for _, d := range s.DBs {
		dbTomb[d.ID] = d.Tomb
	}
	for k, g := range ref.Coll {
		if len(g.Dropped) == 0 {
			if len(g.Live) > 0 {
				run.Count("live_only_names", 1)
			}
			continue
		}
		required++
		live := "no-live"
		if len(g.Live) > 0 {
			live = "live-namesake"
		}
		for _, d := range g.Dropped {
			st := "Dropping"
			if strings.HasSuffix(d.Inc, "Dropped") {
				st = "Dropped"
			}
			dbs := "db-live"
			var dbid int64
			fmt.Sscanf(d.Inc, "db%d/", &dbid)
			if dbTomb[dbid] {
				dbs = "db-tomb-held-downstream"
			}
			cell := fmt.Sprintf("coll_%s_%s_%s", st, live, dbs)
			run.Count(cell, 1)
			sig = append(sig, cell)
		}
		if g.collision() {
			run.Count("coll_key_collisions", 1)
			sig = append(sig, "collision:"+k)
		}
	}
	for _, g := range ref.Part {
		if len(g.Dropped) == 0 {
			if len(g.Live) > 0 {
				run.Count("live_only_names", 1)
			}
			continue
		}
		required++
		live := "no-live"
		if len(g.Live) > 0 {
			live = "live-namesake"
		}
		for _, d := range g.Dropped {
			st := "Dropping"
			if strings.HasSuffix(d.Inc, "Dropped") {
				st = "Dropped"
			}
			cell := fmt.Sprintf("part_%s_%s", st, live)
			run.Count(cell, 1)
			sig = append(sig, cell)
		}
		if len(g.Shadow) > 0 {
			run.Count("part_groups_with_shadow", 1)
		}
		if g.collision() {
			run.Count("part_key_collisions", 1)
		}
	}
	for range ref.DB {
		required++
		run.Count("db_entries_expected", 1)
		sig = append(sig, "db-entry")
	}
	if mode.withTarget {
		// collections readable in a tombstoned database that the target no longer holds anywhere
		held := map[string]bool{}
		for _, g := range ref.Coll {
			for _, d := range g.Dropped {
				held[d.Inc] = true
			}
		}
		for _, co := range s.Colls {
			if co.State.Visible() && dbTomb[co.DBID] && !held[fmt.Sprintf("db%d/%d:%s", co.DBID, co.ID, co.State)] {
				run.Count("coll_in_db_gone_both_sides", 1)
				sig = append(sig, "gone-both-sides")
			}
		}
	}
	if required > 0 {
		sort.Strings(sig)
		run.Nontrivial(mode.name + "|" + strings.Join(sig, ","))
	}
}
