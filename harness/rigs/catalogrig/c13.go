package main

// C13 — no source collection or partition is missed or double-started at task start.
//
// Real code: reader.EtcdOp + reader.CollectionReader.StartRead on the embedded etcd. Fakes: a recording
// api.ChannelManager (every call returns nil), and a decorator around the real api.MetaOp that performs scripted
// catalog writes (the way rootcoord writes them) at the nine step boundaries of StartRead:
//
//	0 before SubscribeCollectionEvent   1 after it            2 after SubscribePartitionEvent
//	3 after WatchCollection             4 after WatchPartition (= just before GetAllCollection)
//	5 after GetAllCollection returned (before the listing is processed)
//	6 just before GetAllPartition       7 after GetAllPartition (= just before StartWatch)   8 after StartWatch
//
// Quiescence is logical: after StartRead returned and every scripted write is done, a sentinel collection and a
// sentinel partition are written last; once the recorder has seen both (each watcher handles its events in
// order, so every earlier event has been handed to the callback pool) all 16 workers of the callback pool are
// occupied at once by harness tasks (so every callback handed over earlier has returned). Watchdogs only make a
// case inconclusive.
//
// Oracle (from the model of what was written, never from the code):
//   - every collection whose final state is Created, in a live database, selected by the task's shouldReadFunc,
//     has a StartReadCollection call, and was never passed to AddDroppedCollection;
//   - every partition in final state Created, not the default partition, of such a collection has an AddPartition call;
//   - for the catalog as it was when GetAllCollection was invoked: of the readable incarnations (Created/
//     Dropping/Dropped) of one selected (database, name) all but the newest are passed to AddDroppedCollection,
//     and none of them is started before that;
//   - a collection / partition that never got beyond Creating (incl. creating -> tombstone) is never started / added;
//   - StartWatch is called when StartRead returns without error.
// Tolerated: repeated calls for one object (list + watch), any order, starting dropped-but-readable newest
// incarnations, calls for unselected or later dropped objects, AddDroppedCollection of ids that never were created.

import (
	"context"
	"fmt"
	"os"
	"sort"
	"strings"
	"sync"
	"time"

	"github.com/milvus-io/milvus-proto/go-api/v2/msgpb"

	"github.com/zilliztech/milvus-cdc/core/api"
	"github.com/zilliztech/milvus-cdc/core/config"
	"github.com/zilliztech/milvus-cdc/core/model"
	"github.com/zilliztech/milvus-cdc/core/pb"
	"github.com/zilliztech/milvus-cdc/core/reader"

	"verifharness/internal/catalog"
	"verifharness/internal/etcdbox"
	"verifharness/internal/vf"
)

const nBoundaries = 9

var boundaryNames = []string{
	"before-SubscribeCollectionEvent", "after-SubscribeCollectionEvent", "after-SubscribePartitionEvent",
	"after-WatchCollection", "after-WatchPartition", "after-GetAllCollection", "before-GetAllPartition",
	"after-GetAllPartition", "after-StartWatch",
}

// ---- recording channel manager ----

type recEvent struct {
	Seq    int     `json:"seq"`
	Call   string  `json:"call"`
	Coll   int64   `json:"coll,omitempty"`
	Part   int64   `json:"part,omitempty"`
	IDs    []int64 `json:"ids,omitempty"`
	Name   string  `json:"name,omitempty"`
	State  string  `json:"state,omitempty"`
	DB     string  `json:"db,omitempty"`
	DBDrop bool    `json:"db_dropped,omitempty"`
}

type recorder struct {
	api.DefaultChannelManager
	mu      sync.Mutex
	events  []recEvent
	changed chan struct{}
	started map[int64]bool // collections the "manager" replicates (StartReadCollection without a later StopReadCollection)
}

func newRecorder() *recorder { return &recorder{changed: make(chan struct{}, 1)} }

func (r *recorder) add(e recEvent) {
	r.mu.Lock()
	e.Seq = len(r.events)
	r.events = append(r.events, e)
	r.mu.Unlock()
	select {
	case r.changed <- struct{}{}:
	default:
	}
}

func (r *recorder) snapshot() []recEvent {
	r.mu.Lock()
	defer r.mu.Unlock()
	return append([]recEvent(nil), r.events...)
}

func (r *recorder) SetCtx(ctx context.Context) {}
func (r *recorder) AddDroppedCollection(ids []int64) {
	r.add(recEvent{Call: "AddDroppedCollection", IDs: append([]int64(nil), ids...)})
}
func (r *recorder) AddDroppedPartition(ids []int64) {
	r.add(recEvent{Call: "AddDroppedPartition", IDs: append([]int64(nil), ids...)})
}

// dupStartErr is what the REAL channel manager answers to a second StartReadCollection for a collection it already
// replicates (after its retries; observed by the reader rig's profile C13D, counter manager_duplicate_start_answered_with_error):
// the recorder mirrors that, so that the effect of a double notification on the reader becomes visible here.
const dupStartErr = "the collection has been replicated, wait it [collection name: %s] to drop..."

func (r *recorder) StartReadCollection(ctx context.Context, db *model.DatabaseInfo, info *pb.CollectionInfo, seekPositions []*msgpb.MsgPosition, channelStartTsMap map[string]uint64) error {
	e := recEvent{Call: "StartReadCollection", Coll: info.GetID(), Name: info.GetSchema().GetName(), State: info.GetState().String()}
	if db != nil {
		e.DB, e.DBDrop = db.Name, db.Dropped
	}
	r.mu.Lock()
	if r.started == nil {
		r.started = map[int64]bool{}
	}
	dup := r.started[info.GetID()]
	r.started[info.GetID()] = true
	r.mu.Unlock()
	r.add(e)
	if dup {
		return fmt.Errorf(dupStartErr, info.GetSchema().GetName())
	}
	return nil
}
func (r *recorder) StopReadCollection(ctx context.Context, info *pb.CollectionInfo) error {
	r.mu.Lock()
	delete(r.started, info.GetID())
	r.mu.Unlock()
	r.add(recEvent{Call: "StopReadCollection", Coll: info.GetID()})
	return nil
}
func (r *recorder) AddPartition(ctx context.Context, dbInfo *model.DatabaseInfo, collectionInfo *pb.CollectionInfo, partitionInfo *pb.PartitionInfo) error {
	e := recEvent{Call: "AddPartition", Coll: collectionInfo.GetID(), Part: partitionInfo.GetPartitionID(), Name: partitionInfo.GetPartitionName(), State: partitionInfo.GetState().String()}
	if dbInfo != nil {
		e.DB, e.DBDrop = dbInfo.Name, dbInfo.Dropped
	}
	r.add(e)
	return nil
}

// ---- MetaOp decorator: scripted writes at the step boundaries ----

type stepOp struct {
	inner api.MetaOp
	at    func(k int)
	cat   *catalog.Catalog

	mu          sync.Mutex
	startWatch  bool
	listingView *catalog.Snap
	order       []string
}

func (s *stepOp) note(m string) { s.mu.Lock(); s.order = append(s.order, m); s.mu.Unlock() }

func (s *stepOp) SubscribeCollectionEvent(taskID string, c api.CollectionEventConsumer) {
	s.at(0)
	s.note("SubscribeCollectionEvent")
	s.inner.SubscribeCollectionEvent(taskID, c)
	s.at(1)
}
func (s *stepOp) SubscribePartitionEvent(taskID string, c api.PartitionEventConsumer) {
	s.note("SubscribePartitionEvent")
	s.inner.SubscribePartitionEvent(taskID, c)
	s.at(2)
}
func (s *stepOp) WatchCollection(ctx context.Context, f api.CollectionFilter) {
	s.note("WatchCollection")
	s.inner.WatchCollection(ctx, f)
	s.at(3)
}
func (s *stepOp) WatchPartition(ctx context.Context, f api.PartitionFilter) {
	s.note("WatchPartition")
	s.inner.WatchPartition(ctx, f)
	s.at(4)
}
func (s *stepOp) GetAllCollection(ctx context.Context, f api.CollectionFilter) ([]*pb.CollectionInfo, error) {
	s.note("GetAllCollection")
	v := s.cat.Snapshot()
	s.mu.Lock()
	if s.listingView == nil {
		s.listingView = &v
	}
	s.mu.Unlock()
	r, err := s.inner.GetAllCollection(ctx, f)
	s.at(5)
	return r, err
}
func (s *stepOp) GetAllPartition(ctx context.Context, f api.PartitionFilter) ([]*pb.PartitionInfo, error) {
	s.at(6)
	s.note("GetAllPartition")
	r, err := s.inner.GetAllPartition(ctx, f)
	s.at(7)
	return r, err
}
func (s *stepOp) StartWatch() {
	s.note("StartWatch")
	s.inner.StartWatch()
	s.mu.Lock()
	s.startWatch = true
	s.mu.Unlock()
	s.at(8)
}
func (s *stepOp) UnsubscribeEvent(taskID string, t api.WatchEventType) {
	s.inner.UnsubscribeEvent(taskID, t)
}
func (s *stepOp) GetAllDroppedObj() map[string]map[string]uint64 { return s.inner.GetAllDroppedObj() }
func (s *stepOp) GetCollectionNameByID(ctx context.Context, id int64) string {
	return s.inner.GetCollectionNameByID(ctx, id)
}
func (s *stepOp) GetDatabaseInfoForCollection(ctx context.Context, id int64) model.DatabaseInfo {
	return s.inner.GetDatabaseInfoForCollection(ctx, id)
}

// ---- the run ----

func selected(dbName, collName string) bool {
	if strings.HasPrefix(collName, "skip") {
		return false
	}
	return dbName == "default" || dbName == "db2" || strings.HasPrefix(dbName, "newdb")
}

func runC13(tier string) *vf.Run {
	run := vf.NewRun("C13", tier, "exploration")
	run.Rule = "case = generated start catalog (1-4 databases incl. unselected and tombstoned ones; collections Created/Creating/Dropping/Dropped/tombstoned, older incarnations below newer ones, unselected names, partitions in all states) x one primary catalog write of kind K performed at step boundary B of CollectionReader.StartRead (9 boundaries x 14 kinds: create, flip Creating->Created, add partition, drop, re-create same name, create->tombstone, create left in Creating, create+partition, drop partition, new database, two new databases, flip+drop+re-create, default-like partition name, create in unselected) plus 0-2 further writes at random boundaries and an optional pause at a boundary; thorough enumerates every (B,K) for 6 start catalogs, quick takes every boundary x {create, add partition} and a seeded spread of the rest. Non-trivial = the primary write was executed at its boundary and the sentinel was delivered by the watch; distinct by (B, K, extra writes, catalog shape)."
	run.Assumptions = []string{
		"the catalog writer is the harness' rendering of rootcoord's write order (collection key in state Creating, then fields and partitions, then state Created; drop = state Dropping, later tombstones for partitions, fields and finally the collection key; create->tombstone for a failed create), taken from etcd_op.go and etcd_op_test.go",
		"catalogs keep rootcoord's invariants (ids and create times grow with creation, one live incarnation per name, non-default partitions only below Created collections)",
		"quiescence needs the add-only accessor EtcdOp.VerifWatchPool (core/reader/verif_hooks_catalog.go, build tag verif) to occupy all callback workers at once; nothing else of the code under test is touched",
		"idempotence of a repeated StartReadCollection/AddPartition inside the real channel manager is checked by the reader rig, not here (the recorder accepts every call)",
	}
	box := startBox(run)
	if box == nil {
		return run
	}
	defer box.Close()

	plans := c13Plans(run)
	if only := os.Getenv("VERIF_CASE"); only != "" { // replay of single cases: VERIF_CASE=36,48
		var keep []c13Plan
		for _, p := range plans {
			for _, s := range strings.Split(only, ",") {
				if s == fmt.Sprint(p.Idx) {
					keep = append(keep, p)
				}
			}
		}
		plans = keep
	}
	results := make([]*c13Result, len(plans))
	parallel(len(plans), 8, func(i int) { results[i] = c13Case(run, box, plans[i], 0) })
	// an inconclusive case is retried once on its own before it counts
	for i, r := range results {
		if r != nil && r.inconclusive != "" {
			fmt.Fprintf(os.Stderr, "catalogrig: case %d (%s) inconclusive on first attempt: %s; retrying alone\n", plans[i].Idx, plans[i].describe(), r.inconclusive)
			run.Count("cases_retried_alone", 1)
			results[i] = c13Case(run, box, plans[i], 1)
		}
	}
	for i, r := range results {
		if r == nil {
			continue
		}
		c13Account(run, plans[i], r)
	}
	for b := 0; b < nBoundaries; b++ {
		run.Floor(fmt.Sprintf("create_at_%d_%s", b, boundaryNames[b]), 1)
		run.Floor(fmt.Sprintf("addpart_at_%d_%s", b, boundaryNames[b]), 1)
	}
	run.Floor("cases_decided", run.Pick(40, 500))
	run.Floor("expected_collections_checked", run.Pick(100, 800))
	run.Floor("expected_partitions_checked", run.Pick(100, 800))
	run.Floor("older_incarnations_checked", run.Pick(40, 320))
	run.Floor("never_created_objects_checked", run.Pick(200, 1600))
	run.Floor("objects_delivered_only_by_watch", run.Pick(15, 120))
	return run
}

type c13Result struct {
	inconclusive string
	violations   []vf.Violation
	counts       map[string]int
	sig          string
	sample       any
}

func c13Account(run *vf.Run, p c13Plan, r *c13Result) {
	run.Eval(1)
	if r.inconclusive != "" {
		run.Inconclusive(fmt.Sprintf("case %d (%s at %s): %s", p.Idx, p.Primary.Kind, boundaryNames[p.Primary.Boundary], r.inconclusive))
		return
	}
	run.Count("cases_decided", 1)
	for k, v := range r.counts {
		run.Count(k, v)
	}
	if r.sig != "" {
		run.Nontrivial(r.sig)
	}
	if r.sample != nil {
		run.Sample(r.sample)
	}
	for _, v := range r.violations {
		run.Violate(v.Key, v.Desc, v.Replay)
	}
}

// c13Exec is the state of one running case: model, etcd client, the targets the script refers to.
type c13Exec struct {
	sibling bool // a second, non-selecting task shares the MetaOp and has started the watch already
	plan    c13Plan
	cat     *catalog.Catalog
	box     *etcdbox.Box
	rnd     func(int) int
	ctx     context.Context
	tgt     map[int]*c13Target // write index -> prepared target
	errs    []string
	done    map[int]bool
	mu      sync.Mutex
	sentC   *catalog.Coll
	sentP   *catalog.Part
	onlyW   map[int64]bool // collection ids that reached Created at a step >= 5 (only the watch can deliver them)
	primAt  int
}

func (x *c13Exec) put(ps ...catalog.Put) {
	if err := catalog.Write(x.ctx, x.box.Client, ps...); err != nil {
		x.mu.Lock()
		x.errs = append(x.errs, err.Error())
		x.mu.Unlock()
	}
}

// rootcoord-like composite writes
func (x *c13Exec) createColl(db int64, name string, full bool) *catalog.Coll {
	co := x.cat.AddColl(db, name, catalog.Creating, nil)
	x.put(x.cat.RenderColl(co))
	x.put(x.cat.RenderFields(co)...)
	dp := x.cat.AddPart(co.ID, "_default", catalog.Created, nil)
	x.put(x.cat.RenderPart(dp))
	if full {
		x.flip(co)
	}
	return co
}

func (x *c13Exec) flip(co *catalog.Coll) {
	x.cat.SetCollState(co, catalog.Created)
	x.put(x.cat.RenderColl(co))
}

func (x *c13Exec) addPart(co *catalog.Coll, name string) *catalog.Part {
	p := x.cat.AddPart(co.ID, name, catalog.Creating, nil)
	x.put(x.cat.RenderPart(p))
	x.cat.SetPartState(p, catalog.Created)
	x.put(x.cat.RenderPart(p))
	return p
}

func (x *c13Exec) gcColl(co *catalog.Coll) {
	for _, p := range x.cat.PartsOf(co.ID) {
		x.cat.SetPartState(p, catalog.Tombstone)
		x.put(x.cat.RenderPart(p))
	}
	x.cat.SetCollState(co, catalog.Tombstone)
	x.put(x.cat.RenderFields(co)...)
	x.put(x.cat.RenderColl(co))
}

func (x *c13Exec) dropColl(co *catalog.Coll, gc bool) {
	x.cat.SetCollState(co, catalog.Dropping)
	x.put(x.cat.RenderColl(co))
	if gc {
		x.gcColl(co)
	}
}

func (x *c13Exec) dropPart(p *catalog.Part, gc bool) {
	x.cat.SetPartState(p, catalog.Dropping)
	x.put(x.cat.RenderPart(p))
	if gc {
		x.cat.SetPartState(p, catalog.Tombstone)
		x.put(x.cat.RenderPart(p))
	}
}

func (x *c13Exec) createDB(name string) *catalog.DB {
	d := x.cat.AddDB(0, name, false, nil)
	x.put(x.cat.RenderDB(d))
	return d
}

// exec performs write i of the plan (the model's step is the boundary).
func (x *c13Exec) exec(i int, w c13Write) {
	t := x.tgt[i]
	switch w.Kind {
	case "create", "create-unselected":
		x.createColl(t.db, w.Name, true)
	case "flip":
		x.flip(t.coll)
	case "addpart", "addpart-defaultlike":
		x.addPart(t.coll, w.Part)
	case "drop":
		x.dropColl(t.coll, w.GC)
	case "recreate":
		x.dropColl(t.coll, w.GC)
		co := x.createColl(t.db, w.Name, true)
		if w.Part != "" {
			x.addPart(co, w.Part)
		}
	case "createfail":
		co := x.createColl(t.db, w.Name, false)
		x.gcColl(co)
	case "createpending":
		x.createColl(t.db, w.Name, false) // rootcoord is still in the middle of the creation when the case ends
	case "create+part":
		co := x.createColl(t.db, w.Name, true)
		x.addPart(co, w.Part)
	case "droppart":
		x.dropPart(t.part, w.GC)
	case "newdb":
		d := x.createDB(w.DBName)
		co := x.createColl(d.ID, w.Name, true)
		if w.Part != "" {
			x.addPart(co, w.Part)
		}
	case "newdb2":
		d1 := x.createDB(w.DBName + "A")
		x.createColl(d1.ID, w.Name, true)
		d2 := x.createDB(w.DBName + "B")
		x.createColl(d2.ID, w.Name+"_2", true)
	case "flip-recreate":
		x.flip(t.coll)
		x.dropColl(t.coll, w.GC)
		x.createColl(t.db, w.Name, true)
	}
}

func c13Case(run *vf.Run, box *etcdbox.Box, plan c13Plan, attempt int) *c13Result {
	res := &c13Result{counts: map[string]int{}}
	root := fmt.Sprintf("c13-%d-%d-%d", run.Seed, plan.Idx, attempt)
	rnd := vf.Rand(run.Seed, "C13-catalog", plan.Idx)
	cat := catalog.New(root)
	ctx, cancel := context.WithCancel(context.Background())
	defer cancel()
	x := &c13Exec{plan: plan, cat: cat, box: box, ctx: ctx, tgt: map[int]*c13Target{}, done: map[int]bool{}, primAt: -1}
	plan.Shape = c13StartCatalog(cat, rnd, plan, x.tgt)
	x.plan = plan
	cat.SetNow(nil)
	lctx, lcancel := context.WithTimeout(ctx, 60*time.Second)
	err := catalog.Load(lctx, box.Client, cat.RenderAll())
	lcancel()
	if err != nil {
		res.inconclusive = "loading the start catalog failed: " + err.Error()
		return res
	}
	defer deletePrefix(box.Client, root)

	op, err := newOp(box, root, nil)
	if err != nil {
		res.inconclusive = "NewEtcdOp: " + err.Error()
		return res
	}
	defer closeOp(op)
	rec := newRecorder()
	dec := &stepOp{inner: op, cat: cat}
	dec.at = func(k int) {
		x.mu.Lock()
		if x.done[1000+k] {
			x.mu.Unlock()
			return
		}
		x.done[1000+k] = true
		x.mu.Unlock()
		cat.SetStep(k)
		for i, w := range plan.Writes {
			if w.Boundary == k {
				x.exec(i, w)
				x.mu.Lock()
				x.done[i] = true
				x.mu.Unlock()
			}
		}
		if d := plan.PauseMs[k]; d > 0 {
			time.Sleep(time.Duration(d) * time.Millisecond) // schedule perturbation only, never a verdict
		}
	}
	shouldRead := func(db *model.DatabaseInfo, info *pb.CollectionInfo) (bool, bool) {
		if db.Dropped {
			return false, false
		}
		return false, selected(db.Name, info.GetSchema().GetName())
	}
	// every second case: a second task on the same MetaOp (as two tasks of one target share it in the server) that
	// selects nothing; it is up and subscribed before the task under observation starts
	var rec2 *recorder
	if plan.Idx%2 == 1 {
		rec2 = newRecorder()
		none := func(db *model.DatabaseInfo, info *pb.CollectionInfo) (bool, bool) { return false, false }
		rd2, err := reader.NewCollectionReader("task-c13-sibling", rec2, op, nil, nil, none, config.ReaderConfig{Retry: retrySettings})
		if err != nil {
			res.inconclusive = "NewCollectionReader (sibling): " + err.Error()
			return res
		}
		sret := make(chan struct{})
		go func() { defer close(sret); rd2.StartRead(ctx) }()
		select {
		case <-sret:
		case <-time.After(150 * time.Second):
			res.inconclusive = "sibling StartRead did not return (watchdog)"
			return res
		}
		defer func() {
			qctx, qcancel := context.WithTimeout(context.Background(), 20*time.Second)
			rd2.QuitRead(qctx)
			qcancel()
		}()
		res.counts["cases_with_sibling_task"]++
		x.sibling = true
	}
	rd, err := reader.NewCollectionReader("task-c13", rec, dec, nil, nil, shouldRead, config.ReaderConfig{Retry: retrySettings})
	if err != nil {
		res.inconclusive = "NewCollectionReader: " + err.Error()
		return res
	}
	var readerErrs []string
	var emu sync.Mutex
	go func() {
		for {
			select {
			case e := <-rd.ErrorChan():
				if e != nil {
					emu.Lock()
					readerErrs = append(readerErrs, e.Error())
					emu.Unlock()
				}
			case <-ctx.Done():
				return
			}
		}
	}()

	watchdog := 150 * time.Second
	ret := make(chan any, 1)
	go func() {
		defer func() { ret <- recover() }()
		rd.StartRead(ctx)
	}()
	select {
	case p := <-ret:
		if p != nil {
			res.violations = append(res.violations, vf.Violation{Key: "C13/start-read-panicked", Desc: fmt.Sprintf("case %d: StartRead panicked: %v", plan.Idx, p), Replay: plan})
			return res
		}
	case <-time.After(watchdog):
		res.inconclusive = "StartRead did not return (watchdog)"
		return res
	}
	dec.mu.Lock()
	startWatch := dec.startWatch
	order := append([]string(nil), dec.order...)
	dec.mu.Unlock()

	emu.Lock()
	rerrs := append([]string(nil), readerErrs...)
	emu.Unlock()
	for _, e := range rerrs {
		if !strings.Contains(e, "the collection has been replicated, wait it") {
			res.inconclusive = "the reader reported an error: " + e
			return res
		}
	}
	mkReplay := func(extra map[string]any) map[string]any {
		m := map[string]any{"case": plan.Idx, "plan": plan, "catalog": cat.Summary(), "calls": rec.snapshot(), "metaop_call_order": order,
			"boundaries": boundaryNames}
		for k, v := range extra {
			m[k] = v
		}
		return m
	}
	if !startWatch {
		res.violations = append(res.violations, vf.Violation{Key: "C13/start-watch-not-called", Desc: fmt.Sprintf("case %d: StartRead returned without error and never called MetaOp.StartWatch: nothing created later can ever be started", plan.Idx), Replay: mkReplay(nil)})
		return res
	}
	// sentinels: the last writes of the case. The sentinel partition is written only after the sentinel collection
	// was reported, so that the partition's own delivery cannot depend on how the two watchers interleave.
	waitFor := func(what string, seen func(e recEvent) bool) bool {
		deadline := time.After(watchdog)
		for {
			for _, e := range rec.snapshot() {
				if seen(e) {
					return true
				}
			}
			select {
			case <-rec.changed:
			case <-deadline:
				res.inconclusive = "sentinel " + what + " not delivered by the watch within the watchdog"
				return false
			}
		}
	}
	cat.SetStep(nBoundaries)
	if rec2 != nil {
		// ordinary selected collections created by watch events just before the sentinel: etcd delivers events in
		// revision order, so once the sentinel has been reported and the callback pool is idle they are decided
		x.createColl(1, "zz_before_sentinel_1", true)
		x.createColl(1, "zz_before_sentinel_2", true)
	}
	x.sentC = x.createColl(1, "zz_sentinel", true)
	if !waitFor("collection", func(e recEvent) bool { return e.Call == "StartReadCollection" && e.Coll == x.sentC.ID }) {
		return res
	}
	x.sentP = x.addPart(x.sentC, "zz_sentinel_part")
	if !waitFor("partition", func(e recEvent) bool { return e.Call == "AddPartition" && e.Part == x.sentP.ID }) {
		return res
	}
	x.mu.Lock()
	werrs := append([]string(nil), x.errs...)
	x.mu.Unlock()
	if len(werrs) > 0 {
		res.inconclusive = "a scripted write failed: " + werrs[0]
		return res
	}
	deadline := time.After(watchdog)
	// every callback handed to the pool before has returned once all workers are ours at the same time
	pool := op.VerifWatchPool()
	n := pool.Cap()
	arrived := make(chan struct{}, n)
	release := make(chan struct{})
	// submitted one after the other from one goroutine: ants checks the capacity before it counts the new worker,
	// so concurrent submitters can exceed it (both watchers are idle by now: their last events were the sentinels)
	go func() {
		for i := 0; i < n; i++ {
			pool.Submit(func() (struct{}, error) {
				arrived <- struct{}{}
				<-release
				return struct{}{}, nil
			})
		}
	}()
	got := 0
	for got < n {
		select {
		case <-arrived:
			got++
		case <-deadline:
			close(release)
			res.inconclusive = "callback pool never became idle (watchdog)"
			return res
		}
	}
	close(release)

	c13Oracle(res, plan, x, dec, rec.snapshot(), mkReplay)
	// "being notified twice about the same object has no further effect": the channel manager answers a second start of
	// a collection it already replicates with an error, and an error on the reader's error channel pauses the task
	emu.Lock()
	finalErrs := append([]string(nil), readerErrs...)
	emu.Unlock()
	for _, e := range finalErrs {
		if strings.Contains(e, "the collection has been replicated, wait it") {
			res.violations = append(res.violations, vf.Violation{Key: "C13/notified-twice-reader-reports-an-error", Desc: fmt.Sprintf("case %d: a collection was announced to the task twice the second StartReadCollection was handed to the channel manager, whose answer for a collection it already replicates (%q) went to the reader's error channel: the server pauses the task for that", plan.Idx, e), Replay: mkReplay(nil)})
			break
		}
	}
	if rec2 != nil {
		for _, e := range rec2.snapshot() {
			if e.Call == "StartReadCollection" || e.Call == "AddPartition" {
				res.violations = append(res.violations, vf.Violation{Key: "C13/object-started-by-a-task-that-does-not-select-it", Desc: fmt.Sprintf("case %d: the sibling task (selects nothing) received %s for collection %d partition %d", plan.Idx, e.Call, e.Coll, e.Part), Replay: mkReplay(nil)})
				break
			}
		}
	}
	qctx, qcancel := context.WithTimeout(ctx, 20*time.Second)
	rd.QuitRead(qctx)
	qcancel()
	return res
}

// c13Oracle evaluates the recorded calls against the model.
func c13Oracle(res *c13Result, plan c13Plan, x *c13Exec, dec *stepOp, calls []recEvent, mkReplay func(map[string]any) map[string]any) {
	final := x.cat.Snapshot()
	dbs := map[int64]catalog.DB{}
	for _, d := range final.DBs {
		dbs[d.ID] = d
	}
	colls := map[int64]catalog.Coll{}
	for _, c := range final.Colls {
		colls[c.ID] = c
	}
	parts := map[int64]catalog.Part{}
	for _, p := range final.Parts {
		parts[p.ID] = p
	}
	firstStart := map[int64]int{}
	firstDropped := map[int64]int{}
	added := map[[2]int64]bool{}
	for _, e := range calls {
		switch e.Call {
		case "StartReadCollection":
			if _, ok := firstStart[e.Coll]; !ok {
				firstStart[e.Coll] = e.Seq
			}
		case "AddDroppedCollection":
			for _, id := range e.IDs {
				if _, ok := firstDropped[id]; !ok {
					firstDropped[id] = e.Seq
				}
			}
		case "AddPartition":
			added[[2]int64{e.Coll, e.Part}] = true
		}
	}
	seen := map[string]bool{}
	viol := func(key, desc string, extra map[string]any) {
		if seen[key] {
			return
		}
		seen[key] = true
		res.violations = append(res.violations, vf.Violation{Key: key, Desc: fmt.Sprintf("case %d [%s]: %s", plan.Idx, plan.describe(), desc), Replay: mkReplay(extra)})
	}
	beyondCreating := func(h []catalog.Change) bool {
		for _, c := range h {
			if c.State == catalog.Created || c.State == catalog.Dropping || c.State == catalog.Dropped {
				return true
			}
		}
		return false
	}
	stepOf := func(h []catalog.Change, s catalog.State) int {
		for _, c := range h {
			if c.State == s {
				return c.Step
			}
		}
		return -1
	}
	laterDB := func(d catalog.DB) bool {
		for _, o := range final.DBs {
			if o.ID > d.ID {
				return true
			}
		}
		return false
	}

	// 1. expected collections
	missedColl := map[int64]bool{}
	for _, c := range final.Colls {
		d, ok := dbs[c.DBID]
		if c.State != catalog.Created || !ok || d.Tomb || !selected(d.Name, c.Name) {
			continue
		}
		res.counts["expected_collections_checked"]++
		at := stepOf(c.Hist, catalog.Created)
		if at >= 5 && at < nBoundaries {
			res.counts["objects_delivered_only_by_watch"]++
		}
		desc := fmt.Sprintf("collection %d %q in database %q (Created at step %d)", c.ID, c.Name, d.Name, at)
		if _, ok := firstStart[c.ID]; !ok {
			missedColl[c.ID] = true
			switch {
			case d.Step >= 5 && laterDB(d):
				viol("C13/collection-in-new-database-not-started-when-a-later-database-exists", desc+": no StartReadCollection call; its database was created at step "+fmt.Sprint(d.Step)+" (after the listing) and another database was created after it", nil)
			case at <= 4:
				viol("C13/collection-created-before-listing-not-started", desc+": no StartReadCollection call", nil)
			default:
				viol("C13/collection-created-after-listing-not-started", desc+": no StartReadCollection call", nil)
			}
			continue
		}
		if _, ok := firstDropped[c.ID]; ok {
			viol("C13/newest-live-incarnation-recorded-as-dropped", desc+": passed to AddDroppedCollection although it is the live, newest incarnation of its name", nil)
		}
	}
	// 2. expected partitions
	for _, p := range final.Parts {
		c, ok := colls[p.CollID]
		if !ok || p.State != catalog.Created || p.Name == "_default" {
			continue
		}
		d, ok := dbs[c.DBID]
		if c.State != catalog.Created || !ok || d.Tomb || !selected(d.Name, c.Name) {
			continue
		}
		res.counts["expected_partitions_checked"]++
		at := stepOf(p.Hist, catalog.Created)
		if at >= 7 && at < nBoundaries {
			res.counts["objects_delivered_only_by_watch"]++
		}
		if added[[2]int64{c.ID, p.ID}] || missedColl[c.ID] {
			continue
		}
		desc := fmt.Sprintf("partition %d %q of collection %d %q in database %q (Created at step %d)", p.ID, p.Name, c.ID, c.Name, d.Name, at)
		switch {
		case strings.Contains(p.Name, "_default"):
			viol("C13/partition-whose-name-contains-the-default-partition-name-not-added", desc+": no AddPartition call; it is not the default partition, its name only contains \"_default\"", nil)
		case stepOf(c.Hist, catalog.Created) >= 5:
			viol("C13/partition-of-collection-created-after-listing-not-added", desc+fmt.Sprintf(": no AddPartition call; its collection reached Created at step %d, so collection and partition were both delivered by the two watchers", stepOf(c.Hist, catalog.Created)), nil)
		case at <= 6:
			viol("C13/partition-created-before-partition-listing-not-added", desc+": no AddPartition call", nil)
		default:
			viol("C13/partition-created-after-partition-listing-not-added", desc+": no AddPartition call", nil)
		}
	}
	// 3. older incarnations in the catalog as the listing saw it
	dec.mu.Lock()
	view := dec.listingView
	dec.mu.Unlock()
	if view != nil {
		type nk struct {
			db   int64
			name string
		}
		groups := map[nk][]catalog.Coll{}
		vdbs := map[int64]catalog.DB{}
		for _, d := range view.DBs {
			vdbs[d.ID] = d
		}
		for _, c := range view.Colls {
			if c.State == catalog.Created || c.State == catalog.Dropping || c.State == catalog.Dropped {
				groups[nk{c.DBID, c.Name}] = append(groups[nk{c.DBID, c.Name}], c)
			}
		}
		for k, g := range groups {
			d, ok := vdbs[k.db]
			if !ok || d.Tomb || !selected(d.Name, k.name) || len(g) < 2 {
				continue
			}
			sort.Slice(g, func(i, j int) bool { return g[i].CreateTS < g[j].CreateTS })
			newest := g[len(g)-1]
			for _, o := range g[:len(g)-1] {
				res.counts["older_incarnations_checked"]++
				desc := fmt.Sprintf("collection %d %q (%s, created at ts %d) in database %q was, when GetAllCollection ran, an older incarnation below %d (%s, ts %d)", o.ID, o.Name, o.State, o.CreateTS, d.Name, newest.ID, newest.State, newest.CreateTS)
				ds, dropped := firstDropped[o.ID]
				ss, started := firstStart[o.ID]
				if !dropped {
					if started {
						viol("C13/older-incarnation-started-and-not-recorded-as-dropped", desc+": StartReadCollection was called for it and AddDroppedCollection never", nil)
					} else {
						viol("C13/older-incarnation-not-recorded-as-dropped", desc+": never passed to AddDroppedCollection", nil)
					}
					continue
				}
				// (with a sibling task the watch is already running during this task's listing: an incarnation that was
				// the live one when its watch event arrived is legitimately started before the listing supersedes it)
				if started && ss < ds && !x.sibling {
					viol("C13/older-incarnation-started-before-recorded-as-dropped", desc+fmt.Sprintf(": StartReadCollection (call #%d) precedes AddDroppedCollection (call #%d)", ss, ds), nil)
				}
			}
		}
	}
	// 4. never beyond Creating
	for _, c := range final.Colls {
		if beyondCreating(c.Hist) {
			continue
		}
		res.counts["never_created_objects_checked"]++
		if _, ok := firstStart[c.ID]; ok {
			viol("C13/never-created-collection-started", fmt.Sprintf("collection %d %q never got beyond state Creating (history %v) and StartReadCollection was called for it", c.ID, c.Name, c.Hist), nil)
		}
	}
	for _, p := range final.Parts {
		if beyondCreating(p.Hist) {
			continue
		}
		res.counts["never_created_objects_checked"]++
		if added[[2]int64{p.CollID, p.ID}] {
			viol("C13/never-created-partition-added", fmt.Sprintf("partition %d %q of collection %d never got beyond state Creating (history %v) and AddPartition was called for it", p.ID, p.Name, p.CollID, p.Hist), nil)
		}
	}
	for id := range firstStart {
		if _, ok := colls[id]; !ok {
			viol("C13/unknown-collection-started", fmt.Sprintf("StartReadCollection for id %d that was never written", id), nil)
		}
	}

	// coverage
	x.mu.Lock()
	primDone := x.done[0]
	x.mu.Unlock()
	if primDone {
		b := plan.Primary.Boundary
		switch plan.Primary.Kind {
		case "create":
			res.counts[fmt.Sprintf("create_at_%d_%s", b, boundaryNames[b])]++
		case "addpart":
			res.counts[fmt.Sprintf("addpart_at_%d_%s", b, boundaryNames[b])]++
		}
		res.counts["kind_"+plan.Primary.Kind]++
		res.sig = plan.describe() + "|" + plan.Shape
	}
	dup := 0
	cnt := map[string]int{}
	for _, e := range calls {
		if e.Call == "StartReadCollection" || e.Call == "AddPartition" {
			k := fmt.Sprintf("%s/%d/%d", e.Call, e.Coll, e.Part)
			cnt[k]++
			if cnt[k] == 2 {
				dup++
			}
		}
	}
	res.counts["objects_notified_twice_tolerated"] += dup
	if plan.Idx < 2 {
		res.sample = map[string]any{"case": plan.Idx, "plan": plan, "catalog": x.cat.Summary(), "calls": calls}
	}
}
