package main

import (
	"fmt"
	"math/rand"
	"strings"

	"verifharness/internal/catalog"
	"verifharness/internal/vf"
)

// c13Write is one scripted catalog write (a rootcoord-like composite) performed at a step boundary.
type c13Write struct {
	Boundary int    `json:"boundary"`
	Kind     string `json:"kind"`
	DBName   string `json:"db"`
	Name     string `json:"name,omitempty"`
	Part     string `json:"part,omitempty"`
	GC       bool   `json:"gc,omitempty"` // a drop also tombstones the keys (garbage collection already ran)
}

type c13Plan struct {
	Idx     int         `json:"idx"`
	Seed    int64       `json:"seed"`
	Variant int         `json:"catalog_variant"`
	Primary c13Write    `json:"primary"`
	Writes  []c13Write  `json:"writes"` // Writes[0] == Primary
	PauseMs map[int]int `json:"pause_ms,omitempty"`
	Shape   string      `json:"shape,omitempty"`
}

func (p c13Plan) describe() string {
	var s []string
	for _, w := range p.Writes {
		x := fmt.Sprintf("%s@%d", w.Kind, w.Boundary)
		if w.GC {
			x += "+gc"
		}
		s = append(s, x)
	}
	for k, v := range p.PauseMs {
		if v > 0 {
			s = append(s, fmt.Sprintf("pause@%d", k))
		}
	}
	return strings.Join(s, ",")
}

// c13Target: objects of the start catalog a write refers to.
type c13Target struct {
	db   int64
	coll *catalog.Coll
	part *catalog.Part
}

var c13Kinds = []string{"create", "addpart", "flip", "drop", "recreate", "createfail", "create+part", "droppart",
	"newdb", "newdb2", "flip-recreate", "addpart-defaultlike", "create-unselected", "createpending"}

// kinds that may be added as extra writes (they never interfere with another write's target)
var c13ExtraKinds = []string{"create", "addpart", "flip", "drop", "recreate", "createfail", "create+part", "droppart", "flip-recreate", "createpending"}

func c13MakeWrite(rnd *rand.Rand, kind string, boundary, n int) c13Write {
	w := c13Write{Boundary: boundary, Kind: kind, DBName: "default"}
	if rnd.Intn(3) == 0 {
		w.DBName = "db2"
	}
	tag := fmt.Sprintf("%d", n)
	switch kind {
	case "create":
		w.Name = "new" + tag
		if rnd.Intn(3) == 0 {
			w.Name = "tomb" // the name of a tombstoned earlier incarnation
		}
	case "create-unselected":
		w.Name = "skip_new" + tag
		if rnd.Intn(2) == 0 {
			w.DBName, w.Name = "nosel", "new"+tag
		}
	case "flip":
		w.Name = "fl" + tag
	case "addpart":
		w.Name, w.Part = "ap"+tag, "part"+tag
	case "addpart-defaultlike":
		w.Name, w.Part = "apd"+tag, "my_default"+tag
	case "drop":
		w.Name, w.GC = "dr"+tag, rnd.Intn(2) == 0
	case "recreate":
		w.Name, w.GC = "rc"+tag, rnd.Intn(2) == 0
		if rnd.Intn(2) == 0 {
			w.Part = "rp" + tag
		}
	case "createfail":
		w.Name = "cf" + tag
	case "createpending":
		w.Name = "pend" + tag
	case "create+part":
		w.Name, w.Part = "cp"+tag, "cpp"+tag
	case "droppart":
		w.Name, w.Part, w.GC = "dpt"+tag, "victim"+tag, rnd.Intn(2) == 0
	case "newdb":
		w.DBName, w.Name = "newdb"+tag, "in_new"+tag
		if rnd.Intn(2) == 0 {
			w.Part = "np" + tag
		}
	case "newdb2":
		w.DBName, w.Name = "newdb"+tag, "in_new"+tag
	case "flip-recreate":
		w.Name, w.GC = "fr"+tag, rnd.Intn(10) < 3
	}
	return w
}

// c13Plans: the case list, a fixed function of (seed, tier).
func c13Plans(run *vf.Run) []c13Plan {
	var plans []c13Plan
	add := func(kind string, b, variant int) {
		idx := len(plans)
		rnd := vf.Rand(run.Seed, "C13-plan", idx)
		p := c13Plan{Idx: idx, Seed: run.Seed, Variant: variant, PauseMs: map[int]int{}}
		p.Primary = c13MakeWrite(rnd, kind, b, 0)
		p.Writes = []c13Write{p.Primary}
		for e, n := 0, rnd.Intn(3); e < n; e++ {
			k := c13ExtraKinds[rnd.Intn(len(c13ExtraKinds))]
			p.Writes = append(p.Writes, c13MakeWrite(rnd, k, rnd.Intn(nBoundaries), e+1))
		}
		// pauses perturb the schedule where a hand-off could go wrong: right after the collection listing
		// returned, and right before the partition listing
		if kind == "flip-recreate" || rnd.Intn(3) == 0 {
			p.PauseMs[5] = 60 + rnd.Intn(60)
		}
		if rnd.Intn(5) == 0 {
			p.PauseMs[6] = 30 + rnd.Intn(40)
		}
		plans = append(plans, p)
	}
	if run.Thorough() {
		for v := 0; v < 6; v++ {
			for _, k := range c13Kinds {
				for b := 0; b < nBoundaries; b++ {
					add(k, b, v%4)
				}
			}
		}
		return plans
	}
	// quick: every boundary x {create, addpart}, then a seeded spread of the other kinds over the boundaries
	for b := 0; b < nBoundaries; b++ {
		add("create", b, b%4)
		add("addpart", b, (b+1)%4)
	}
	rnd := vf.Rand(run.Seed, "C13-quick", 0)
	spread := map[string][]int{
		"flip":                {2, 4, 5, 7},
		"drop":                {3, 5, 8},
		"recreate":            {0, 3, 4, 5, 6, 8},
		"createfail":          {3, 5, 8},
		"create+part":         {3, 4, 5, 6, 7, 8},
		"droppart":            {4, 6, 8},
		"newdb":               {2, 5, 6, 8},
		"newdb2":              {4, 5, 7},
		"flip-recreate":       {3, 4, 3, 4},
		"addpart-defaultlike": {1, 7},
		"create-unselected":   {1, 5, 8},
		"createpending":       {3, 5, 8},
	}
	for _, k := range c13Kinds {
		for _, b := range spread[k] {
			add(k, b, rnd.Intn(4))
		}
	}
	return plans
}

// c13StartCatalog builds the start catalog: background objects by variant and seed, plus the objects the plan's
// writes refer to (so that no two writes share a target).
func c13StartCatalog(cat *catalog.Catalog, rnd *rand.Rand, plan c13Plan, tgt map[int]*c13Target) string {
	cat.SetStep(-1)
	dbID := map[string]int64{}
	def := cat.AddDB(1, "default", false, nil)
	dbID["default"] = def.ID
	needs := func(name string) bool {
		for _, w := range plan.Writes {
			if w.DBName == name {
				return true
			}
		}
		return false
	}
	var shape []string
	// an older, tombstoned database first (smaller id than everything else)
	if plan.Variant%2 == 1 {
		old := cat.AddDB(0, "olddb", true, nil)
		c := cat.AddColl(old.ID, "left", catalog.Dropping, nil)
		cat.AddPart(c.ID, "_default", catalog.Created, nil)
		shape = append(shape, "tombdb")
	}
	if plan.Variant >= 1 || needs("db2") {
		dbID["db2"] = cat.AddDB(0, "db2", false, nil).ID
		shape = append(shape, "db2")
	}
	if plan.Variant >= 2 || needs("nosel") {
		dbID["nosel"] = cat.AddDB(0, "nosel", false, nil).ID
		shape = append(shape, "nosel")
	}
	coll := func(db int64, name string, st catalog.State, parts ...string) *catalog.Coll {
		c := cat.AddColl(db, name, st, nil)
		dst := catalog.Created
		if st == catalog.Tombstone {
			dst = catalog.Tombstone
		}
		cat.AddPart(c.ID, "_default", dst, nil)
		for _, p := range parts {
			pst := catalog.Created
			switch {
			case st == catalog.Tombstone:
				pst = catalog.Tombstone
			case strings.HasPrefix(p, "pd"):
				pst = catalog.Dropping
			case strings.HasPrefix(p, "px"):
				pst = catalog.Dropped
			case strings.HasPrefix(p, "pt"):
				pst = catalog.Tombstone
			case strings.HasPrefix(p, "pc"):
				pst = catalog.Creating
			}
			cat.AddPart(c.ID, p, pst, nil)
		}
		return c
	}
	for _, name := range []string{"default", "db2", "nosel"} {
		id, ok := dbID[name]
		if !ok {
			continue
		}
		if rnd.Intn(4) != 0 {
			coll(id, "keep", catalog.Created, "pa", "pd1", "pt1", "pc1", "px1")
		}
		if rnd.Intn(2) == 0 {
			coll(id, "skip_x", catalog.Created, "pa")
		}
		// a tombstoned earlier incarnation whose name "create" may reuse
		coll(id, "tomb", catalog.Tombstone, "pa")
		if rnd.Intn(2) == 0 {
			// older readable incarnation(s) below a live one
			if rnd.Intn(3) == 0 {
				coll(id, "ren", catalog.Tombstone)
			}
			st := catalog.Dropping
			if rnd.Intn(2) == 0 {
				st = catalog.Dropped
			}
			coll(id, "ren", st, "np")
			if rnd.Intn(3) == 0 {
				coll(id, "ren", catalog.Dropping, "np")
			}
			coll(id, "ren", catalog.Created, "np", "np2")
			shape = append(shape, "ren:"+name)
		}
		if rnd.Intn(2) == 0 {
			// only dropped incarnations: the newest of them is the "current" one
			coll(id, "gone", catalog.Dropped, "ga")
			coll(id, "gone", catalog.Dropping, "ga")
			shape = append(shape, "gone:"+name)
		}
		if rnd.Intn(2) == 0 {
			coll(id, "creating_left", catalog.Creating)
			shape = append(shape, "creating:"+name)
		}
	}
	// targets of the writes
	for i, w := range plan.Writes {
		t := &c13Target{db: dbID[w.DBName]}
		tgt[i] = t
		switch w.Kind {
		case "flip", "flip-recreate":
			t.coll = coll(t.db, w.Name, catalog.Creating)
		case "addpart", "addpart-defaultlike":
			t.coll = coll(t.db, w.Name, catalog.Created, "pa")
		case "drop", "recreate":
			t.coll = coll(t.db, w.Name, catalog.Created, "pa")
		case "droppart":
			t.coll = coll(t.db, w.Name, catalog.Created)
			t.part = cat.AddPart(t.coll.ID, w.Part, catalog.Created, nil)
		}
	}
	return strings.Join(shape, "+")
}
