package main

// C15, concurrent-DDL part: the source catalog changes WHILE the snapshot is taken. GetAllDroppedObj reads the
// source's current time and then lists databases, collections and partitions with several etcd reads; between any
// two of them rootcoord may create a collection or partition under a name that so far only had dropped
// incarnations (and the TSO moves on). Whatever the snapshot then says about that name, its horizon must be strictly
// below the creation time of the new live incarnation - otherwise the snapshot makes the service skip operations on
// a live object ("operations on live objects are never skipped because of the snapshot").
//
// The op's own etcd client gets a KV that counts the op's reads and performs the catalog write right after the k-th
// read has returned (for every k the snapshot makes), on a fresh copy of the generated catalog each time.

import (
	"context"
	"fmt"
	"sync"
	"sync/atomic"
	"time"

	clientv3 "go.etcd.io/etcd/client/v3"

	"github.com/zilliztech/milvus-cdc/core/util"

	"verifharness/internal/catalog"
	"verifharness/internal/etcdbox"
	"verifharness/internal/vf"
)

type countingKV struct {
	clientv3.KV
	n      atomic.Int32
	at     int32
	once   sync.Once
	inject func()
	fired  atomic.Bool
}

func (h *countingKV) Get(ctx context.Context, key string, opts ...clientv3.OpOption) (*clientv3.GetResponse, error) {
	r, err := h.KV.Get(ctx, key, opts...)
	if h.n.Add(1) == h.at {
		h.once.Do(func() { h.inject(); h.fired.Store(true) })
	}
	return r, err
}

func c15DDLCase(run *vf.Run, box *etcdbox.Box, idx int) {
	reads := 0 // number of reads of one snapshot, learnt from the first pass (k = 0: no injection)
	for k := 0; k == 0 || k <= reads; k++ {
		root := fmt.Sprintf("c15ddl-%d-%d-%d", run.Seed, idx, k)
		rnd := vf.Rand(run.Seed, "C15-ddl", idx) // the same catalog for every k
		cat := catalog.GenSnapshot(root, rnd, catalog.GenOptions{RecreatedDBPercent: 0, CollisionPercent: 0})
		ctx, cancel := context.WithTimeout(context.Background(), 60*time.Second)
		if err := catalog.Load(ctx, box.Client, cat.RenderAll()); err != nil {
			cancel()
			run.Inconclusive(fmt.Sprintf("ddl case %d: loading the catalog failed: %v", idx, err))
			return
		}
		snap := cat.Snapshot()
		dbs := map[int64]catalog.DB{}
		for _, d := range snap.DBs {
			dbs[d.ID] = d
		}
		// a collection name of a live database whose incarnations are all dropped; a partition name of a live collection
		// (of a live database) whose incarnations are all dropped
		type cname struct {
			db   int64
			name string
		}
		liveC, dropC := map[cname]bool{}, map[cname]bool{}
		collByID := map[int64]catalog.Coll{}
		for _, co := range snap.Colls {
			collByID[co.ID] = co
			if d, ok := dbs[co.DBID]; !ok || d.Tomb || !co.State.Visible() {
				continue
			}
			if co.State.Live() {
				liveC[cname{co.DBID, co.Name}] = true
			} else {
				dropC[cname{co.DBID, co.Name}] = true
			}
		}
		var candC []cname
		for _, co := range snap.Colls { // catalog order: deterministic
			n := cname{co.DBID, co.Name}
			if dropC[n] && !liveC[n] {
				candC = append(candC, n)
				delete(dropC, n)
			}
		}
		type pname struct {
			coll int64
			name string
		}
		liveP, dropP := map[pname]bool{}, map[pname]bool{}
		for _, p := range snap.Parts {
			co, ok := collByID[p.CollID]
			if !ok || co.State != catalog.Created || !p.State.Visible() {
				continue
			}
			if d, ok := dbs[co.DBID]; !ok || d.Tomb {
				continue
			}
			if p.State.Live() {
				liveP[pname{p.CollID, p.Name}] = true
			} else {
				dropP[pname{p.CollID, p.Name}] = true
			}
		}
		var candP []pname
		for _, p := range snap.Parts {
			n := pname{p.CollID, p.Name}
			if dropP[n] && !liveP[n] {
				candP = append(candP, n)
				delete(dropP, n)
			}
		}
		if len(candC) == 0 && len(candP) == 0 {
			cancel()
			deletePrefix(box.Client, root)
			run.Count("ddl_catalogs_without_a_name_to_create_again", 1)
			return
		}
		var newColl *catalog.Coll
		var newPart *catalog.Part
		var collKey, partKey string
		inject := func() {
			var puts []catalog.Put
			if len(candC) > 0 {
				n := candC[idx%len(candC)]
				newColl = cat.AddColl(n.db, n.name, catalog.Created, nil)
				puts = append(puts, cat.RenderColl(newColl))
				puts = append(puts, cat.RenderFields(newColl)...)
				_, collKey = util.GetCollectionInfoKeys(n.name, dbs[n.db].Name)
			}
			if len(candP) > 0 {
				n := candP[idx%len(candP)]
				newPart = cat.AddPart(n.coll, n.name, catalog.Created, nil)
				puts = append(puts, cat.RenderPart(newPart))
				co := collByID[n.coll]
				_, partKey = util.GetPartitionInfoKeys(n.name, co.Name, dbs[co.DBID].Name)
			}
			cat.SetNow(nil) // the source's clock has moved past the creations
			puts = append(puts, cat.RenderTSO())
			wctx, wcancel := context.WithTimeout(context.Background(), 20*time.Second)
			defer wcancel()
			_ = catalog.Write(wctx, box.Client, puts...)
		}
		op, err := newOp(box, root, &fakeTarget{cat: cat})
		if err != nil {
			cancel()
			run.Inconclusive(fmt.Sprintf("ddl case %d: NewEtcdOp: %v", idx, err))
			return
		}
		kv := &countingKV{KV: op.VerifEtcdClient().KV, at: int32(k), inject: inject}
		op.VerifEtcdClient().KV = kv
		var obs map[string]map[string]uint64
		var panicked any
		func() {
			defer func() { panicked = recover() }()
			obs = op.GetAllDroppedObj()
		}()
		closeOp(op)
		cancel()
		deletePrefix(box.Client, root)
		run.Eval(1)
		if k == 0 {
			reads = int(kv.n.Load())
			run.Count("ddl_reads_per_snapshot", reads)
			continue
		}
		if panicked != nil {
			run.Violate("C15/snapshot-panicked", fmt.Sprintf("ddl case %d: GetAllDroppedObj panicked while the catalog changed after its read #%d: %v", idx, k, panicked), map[string]any{"case": idx, "after_read": k, "catalog": cat.Summary()})
			continue
		}
		if !kv.fired.Load() {
			continue
		}
		run.Count("ddl_injections", 1)
		run.Nontrivial(fmt.Sprintf("ddl/%d/after-read-%d-of-%d/coll=%v/part=%v", idx, k, reads, newColl != nil, newPart != nil))
		replay := map[string]any{"case": idx, "after_read": k, "reads": reads, "catalog": cat.Summary(), "observed": obs}
		if newColl != nil {
			if v, ok := obs[util.DroppedCollectionKey][collKey]; ok {
				run.Count("ddl_collection_entries_judged", 1)
				if v >= newColl.CreateTS {
					run.Violate("C15/collection-horizon-not-before-namesake-created-during-the-snapshot", fmt.Sprintf("ddl case %d: collection %q was created again (id %d, create time %d) right after read #%d of %d of the snapshot; the snapshot's entry %q says %d, which is not below that creation time: operations on the live collection would be skipped", idx, newColl.Name, newColl.ID, newColl.CreateTS, k, reads, collKey, v), replay)
				}
			}
		}
		if newPart != nil {
			if v, ok := obs[util.DroppedPartitionKey][partKey]; ok {
				run.Count("ddl_partition_entries_judged", 1)
				if v >= newPart.CreateTS {
					run.Violate("C15/partition-horizon-not-before-namesake-created-during-the-snapshot", fmt.Sprintf("ddl case %d: partition %q was created again (id %d, create time %d) right after read #%d of %d of the snapshot; the snapshot's entry %q says %d, which is not below that creation time", idx, newPart.Name, newPart.ID, newPart.CreateTS, k, reads, partKey, v), replay)
				}
			}
		}
	}
}
