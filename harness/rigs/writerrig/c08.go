package main

// C08 — DDL applies to the incarnation it was issued for, else is skipped.
//
// Part A (exhaustive, finite): every order type of (op time m, recorded create time c, recorded drop time d) x
// presence bits, (1) through the verif accessor VerifObjState on boundary values, (2) through the public
// behaviour at each of the three levels: tables pre-seeded through NewChannelWriter's droppedObjs argument, one
// operation stamped m delivered through HandleOpMessagePack / HandleReplicateAPIEvent, observation = {downstream
// call without probe | successful skip | probe}, and through the public Wait{Database,Collection,Partition}Ready.
// The reference is the statement's rule written on events (expectA), not the code's branch structure.
//
// Part B (histories): generated source histories (create / drop / re-create of databases, collections,
// partitions with DDL in between), delivered in order to the real writer with rewinds (re-delivery to the same
// writer) and restarts (new writer seeded with the dropped-object table the statement of C15 describes, computed
// here from the history). The recording handler's catalog is the downstream; every downstream object carries the
// create time of the source incarnation that made it. Reference = set algebra over incarnations: an operation is
// dead for this writer iff an object on its chain is an incarnation known dropped (snapshot, or its drop was
// delivered to this writer instance).
//
// Part C (drop between check and call): the object is dropped (drop event delivered to the same writer by
// another goroutine) while the operation's downstream call is in flight; the call then fails downstream.

import (
	"context"
	"fmt"
	"math"
	"sort"
	"strings"
	"sync"
	"time"

	"github.com/milvus-io/milvus-proto/go-api/v2/milvuspb"

	"github.com/zilliztech/milvus-cdc/core/util"
	"github.com/zilliztech/milvus-cdc/core/writer"

	"verifharness/internal/vf"
	"verifharness/internal/wfakes"
)

// ---------- Part A ----------

// expectA: the statement's rule on recorded events. Returns the set of allowed outcomes ("apply" = executed
// downstream without asking, "skip" = successful skip, "probe" = ask the downstream) and whether the statement
// pins the cell down (false: unspecified, everything listed is tolerated).
func expectA(m, c, d uint64, cok, dok bool) (allowed map[string]bool, specified bool) {
	switch {
	case !cok && !dok:
		return map[string]bool{"probe": true}, true // nothing recorded: only the downstream can tell
	case cok && !dok:
		if m >= c {
			return map[string]bool{"apply": true}, true
		}
		return map[string]bool{"skip": true}, true // re-created after t
	case !cok && dok:
		if m <= d {
			return map[string]bool{"skip": true}, true // dropped at or after t
		}
		return map[string]bool{"probe": true}, true // dropped before t: a newer incarnation may exist
	}
	switch {
	case c > d: // latest recorded event is the creation
		if m >= c {
			return map[string]bool{"apply": true}, true
		}
		return map[string]bool{"skip": true}, true
	case d > c: // latest recorded event is the drop
		if m <= d {
			return map[string]bool{"skip": true}, true
		}
		return map[string]bool{"probe": true}, true
	}
	// c == d: the statement does not order a creation and a drop recorded at the same instant
	if m < c {
		return map[string]bool{"skip": true}, true
	}
	if m > c {
		return map[string]bool{"apply": true, "probe": true}, false
	}
	return map[string]bool{"apply": true, "probe": true, "skip": true}, false
}

func sgn(a, b uint64) string {
	if a < b {
		return "<"
	}
	if a > b {
		return ">"
	}
	return "="
}

func cellOf(m, c, d uint64, cok, dok bool) string {
	return fmt.Sprintf("m%sc,m%sd,c%sd|cok=%v,dok=%v", sgn(m, c), sgn(m, d), sgn(c, d), cok, dok)
}

var stateName = map[int]string{1: "probe", 2: "apply", 3: "skip"}

type c08aCase struct {
	Level    string `json:"level"`
	Kind     string `json:"kind"`
	M, C, D  uint64
	Cok, Dok bool
}

// c08Seed builds the droppedObjs table for one Part A case.
func c08Seed(level string, c, d uint64, cok, dok bool) (map[string]map[string]uint64, string, string, string) {
	db, coll, part := "default", "cx", "px"
	if level == "db" {
		db = "dbx"
	}
	t := map[string]map[string]uint64{util.DroppedDatabaseKey: {}, util.DroppedCollectionKey: {}, util.DroppedPartitionKey: {}}
	put := func(top, ck, dk string) {
		if cok {
			t[top][ck] = c
		}
		if dok {
			t[top][dk] = d
		}
	}
	cck, _ := util.GetCollectionInfoKeys(coll, db)
	pck, _ := util.GetPartitionInfoKeys(part, coll, db)
	switch level {
	case "db":
		ck, dk := util.GetDBInfoKeys(db)
		put(util.DroppedDatabaseKey, ck, dk)
		t[util.DroppedCollectionKey][cck] = 0 // the levels below are live since time 0
		t[util.DroppedPartitionKey][pck] = 0
	case "coll":
		ck, dk := util.GetCollectionInfoKeys(coll, db)
		put(util.DroppedCollectionKey, ck, dk)
		t[util.DroppedPartitionKey][pck] = 0
	case "part":
		t[util.DroppedCollectionKey][cck] = 0
		ck, dk := util.GetPartitionInfoKeys(part, coll, db)
		put(util.DroppedPartitionKey, ck, dk)
	}
	return t, db, coll, part
}

var c08aKinds = map[string][]string{
	"db":   {"CreateIndex", "DropIndex", "AlterIndex", "LoadCollection", "ReleaseCollection", "Flush", evCreateCollection, evDropCollection, evCreatePartition, evDropPartition, "LoadPartitions", "ReleasePartitions"},
	"coll": {"CreateIndex", "DropIndex", "AlterIndex", "LoadCollection", "ReleaseCollection", "Flush", evCreatePartition, evDropPartition, "LoadPartitions", "ReleasePartitions"},
	"part": {"LoadPartitions", "ReleasePartitions"},
}

func c08Spec(kind, db, coll, part string, ts uint64, id int64) *opSpec {
	s := &opSpec{Kind: kind, DB: db, Coll: coll, Ts: ts, ID: id, Index: "idx", Field: "vec", Shards: 2}
	switch kind {
	case "Flush":
		s.Colls = []string{coll}
	case "LoadPartitions", "ReleasePartitions", evCreatePartition, evDropPartition:
		s.Parts = []string{part}
	}
	return s
}

func probeKindOf(level string) string {
	switch level {
	case "db":
		return wfakes.KDescribeDB
	case "coll":
		return wfakes.KDescribeColl
	}
	return wfakes.KDescribePart
}

// observe classifies what one delivery did, from the recorded calls and the returned error.
func observe(level, kind string, calls []*wfakes.Call, err error) string {
	np := nonProbe(calls)
	pr := probes(calls)
	levelProbe := false
	for _, p := range pr {
		if p.Kind == probeKindOf(level) {
			levelProbe = true
		}
	}
	switch {
	case err != nil:
		return "error(" + names(calls) + ")"
	case levelProbe && len(np) == 1 && np[0].Kind == callKindOf[kind]:
		return "probe"
	case len(calls) == 0:
		return "skip"
	case len(pr) == 0 && len(np) == 1 && np[0].Kind == callKindOf[kind]:
		return "apply"
	case levelProbe:
		return "probe"
	}
	return "other(" + names(calls) + ")"
}

func c08PartA(run *vf.Run) {
	// (1) pure sweep through the verif accessor, boundary values included
	vals := []uint64{0, 1, 2, 3, 5, 1 << 40, math.MaxUint64 - 1, math.MaxUint64}
	for _, m := range vals {
		for _, c := range vals {
			for _, d := range vals {
				for pb := 0; pb < 4; pb++ {
					cok, dok := pb&1 != 0, pb&2 != 0
					run.Eval(1)
					got := stateName[writer.VerifObjState(m, c, d, cok, dok)]
					allowed, spec := expectA(m, c, d, cok, dok)
					cell := cellOf(m, c, d, cok, dok)
					run.Distinct("pure_cells", cell)
					if !spec {
						run.Count("unspecified_cells_visited", 1)
					}
					if !allowed[got] {
						want := keysOf(allowed)
						run.Violate(fmt.Sprintf("C08/decision/%s/want-%s-got-%s", cell, strings.Join(want, "-or-"), got),
							fmt.Sprintf("decision(m=%d,c=%d,d=%d,cok=%v,dok=%v) = %s, the statement's rule gives %v", m, c, d, cok, dok, got, want),
							map[string]any{"m": m, "c": c, "d": d, "cok": cok, "dok": dok})
					}
				}
			}
		}
	}
	// (2) public behaviour at the three levels
	small := []uint64{1, 2, 3}
	idx := 0
	var id int64 = 100
	for _, level := range []string{"db", "coll", "part"} {
		for _, m := range small {
			for _, c := range small {
				for _, d := range small {
					for pb := 0; pb < 4; pb++ {
						cok, dok := pb&1 != 0, pb&2 != 0
						kinds := c08aKinds[level]
						kind := kinds[idx%len(kinds)]
						idx++
						id += 2
						c08PublicCell(run, c08aCase{level, kind, m, c, d, cok, dok}, id)
					}
				}
			}
		}
	}
	// (3) nothing recorded / dropped before t, and the object is missing downstream: the statement is silent
	// (nothing is known); tolerated outcome: error without executing the operation. Run in parallel (1 s back-off).
	var wg sync.WaitGroup
	for li, level := range []string{"db", "coll", "part"} {
		for v := 0; v < 2; v++ {
			wg.Add(1)
			go func(level string, v int, id int64) {
				defer wg.Done()
				run.Eval(1)
				cas := c08aCase{Level: level, Kind: c08aKinds[level][v], M: 7, D: 3, Dok: v == 1}
				seed, db, coll, part := c08Seed(level, 0, cas.D, false, cas.Dok)
				cat := wfakes.NewCatalog() // empty downstream: probes fail
				if level != "db" {
					cat.PutDB(db, 0)
				}
				if level == "part" {
					cat.PutColl(db, coll, 0)
				}
				h := &wfakes.Handler{Catalog: cat}
				w, err := newWriter(h, wcfg{Dropped: seed})
				if err != nil {
					run.Inconclusive(err.Error())
					return
				}
				_, derr := deliver(w, c08Spec(cas.Kind, db, coll, part, cas.M, id))
				calls := h.Calls()
				if len(nonProbe(calls)) > 0 {
					run.Violate("C08/executed-although-object-unknown-and-absent-downstream/"+level,
						fmt.Sprintf("%+v: probe failed (object absent downstream, nothing says it is live) yet %s was executed", cas, names(nonProbe(calls))), cas)
				} else if derr != nil {
					run.Count("unknown_and_absent_downstream_error", 1)
				} else {
					run.Count("unknown_and_absent_downstream_skipped", 1)
				}
			}(level, v, int64(90000+li*10+v))
		}
	}
	wg.Wait()
}

func keysOf(m map[string]bool) []string {
	var out []string
	for k := range m {
		out = append(out, k)
	}
	sort.Strings(out)
	return out
}

func c08PublicCell(run *vf.Run, cas c08aCase, id int64) {
	run.Eval(1)
	seed, db, coll, part := c08Seed(cas.Level, cas.C, cas.D, cas.Cok, cas.Dok)
	h := &wfakes.Handler{} // every probe and every call succeeds downstream
	w, err := newWriter(h, wcfg{Dropped: seed})
	if err != nil {
		run.Inconclusive(err.Error())
		return
	}
	allowed, spec := expectA(cas.M, cas.C, cas.D, cas.Cok, cas.Dok)
	cell := cas.Level + "|" + cellOf(cas.M, cas.C, cas.D, cas.Cok, cas.Dok)
	run.Distinct("public_cells", cell)
	_, derr := deliver(w, c08Spec(cas.Kind, db, coll, part, cas.M, id))
	calls := h.Calls()
	got := observe(cas.Level, cas.Kind, calls, derr)
	run.Nontrivial(cell + "|" + cas.Kind)
	run.Count("public_"+strings.SplitN(got, "(", 2)[0], 1)
	if !spec {
		run.Count("unspecified_cells_visited", 1)
	}
	if !allowed[got] {
		want := keysOf(allowed)
		key := fmt.Sprintf("C08/public/%s/%s/want-%s-got-%s", cas.Level, cellOf(cas.M, cas.C, cas.D, cas.Cok, cas.Dok), strings.Join(want, "-or-"), strings.SplitN(got, "(", 2)[0])
		run.Violate(key, fmt.Sprintf("%+v: observed %s (calls %s, err %s), the statement's rule gives %v", cas, got, names(calls), errStr(derr), want), cas)
		return
	}
	// a successful probe must make the object live for later operations: the same operation again goes
	// straight to the downstream
	if got == "probe" && spec {
		n := h.Len()
		_, derr2 := deliver(w, c08Spec(cas.Kind, db, coll, part, cas.M, id+1))
		got2 := observe(cas.Level, cas.Kind, h.Since(n), derr2)
		run.Count("probe_then_live_checks", 1)
		if got2 != "apply" {
			run.Violate("C08/public/probe-success-does-not-make-object-live/"+cas.Level,
				fmt.Sprintf("%+v: after a successful probe the same operation was handled as %s (calls %s)", cas, got2, names(h.Since(n))), cas)
		}
	}
	// the public Wait*Ready on a fresh writer must agree
	h2 := &wfakes.Handler{}
	w2, err := newWriter(h2, wcfg{Dropped: seed})
	if err != nil {
		return
	}
	var st int
	ctx := context.Background()
	switch cas.Level {
	case "db":
		st = int(w2.WaitDatabaseReady(ctx, db, cas.M, coll))
	case "coll":
		st = int(w2.WaitCollectionReady(ctx, coll, db, cas.M))
	case "part":
		st = int(w2.WaitPartitionReady(ctx, coll, part, db, cas.M))
	}
	ws := map[int]string{2: "apply", 3: "skip"}[st]
	if st == 2 && h2.Len() > 0 {
		ws = "probe" // asked the downstream, which said yes
	}
	if st == 1 {
		ws = "error"
	}
	if !allowed[ws] {
		run.Violate(fmt.Sprintf("C08/wait-ready/%s/%s/got-%s", cas.Level, cellOf(cas.M, cas.C, cas.D, cas.Cok, cas.Dok), ws),
			fmt.Sprintf("%+v: Wait*Ready returned state %d after %d probe(s), the statement's rule gives %v", cas, st, h2.Len(), keysOf(allowed)), cas)
	}
}

// ---------- Part B ----------

type hop struct {
	opSpec
	// incarnations (source create times) of the objects the operation was issued for
	DBInc    uint64   `json:"db_inc"`
	CollIncs []uint64 `json:"coll_incs,omitempty"` // per Coll / Colls member
	PartIncs []uint64 `json:"part_incs,omitempty"` // per Parts member
}

type lifeSpan struct{ Create, Drop uint64 } // Drop 0 = live

type srcWorld struct {
	dbs   map[string]uint64 // live: name -> create
	colls map[string]uint64 // db/coll -> create
	parts map[string]uint64 // db/coll/part -> create
	// full incarnation history per name, for the snapshot reference
	collHist map[string][]lifeSpan
	partHist map[string][]lifeSpan
}

func ckey(db, c string) string    { return normDB(db) + "/" + c }
func pkey(db, c, p string) string { return normDB(db) + "/" + c + "/" + p }

type c08History struct {
	Idx     int               `json:"history"`
	Mapping map[string]string `json:"mapping,omitempty"`
	Ops     []hop             `json:"ops"`
	Script  []c08Step         `json:"script"`
}

type c08Step struct {
	Kind     string `json:"kind"` // run | rewind | restart
	From, To int    // ops[From:To] delivered
	SnapAt   int    `json:"snap_at,omitempty"` // restart: the source had executed ops[0:SnapAt]
}

func genHistory(seed int64, idx int) c08History {
	r := newRand(seed, "C08hist", idx)
	hst := c08History{Idx: idx}
	mapped := idx%3 == 2
	dbFocus := idx%4 == 3 // more database churn, fewer collection re-creations
	pDropDB, pAlterDB, pDropColl := 4, 8, 22
	if dbFocus {
		pDropDB, pAlterDB, pDropColl = 14, 26, 45
	}
	if mapped {
		// shapes under which database-level operations are unambiguous (a collection-level entry of a
		// non-default database would leave the statement silent about where the database itself goes)
		if r.Intn(2) == 0 {
			hst.Mapping = map[string]string{"dbA.*": "tA.*"}
		} else {
			hst.Mapping = map[string]string{"dbA.*": "tA.*", "default.c2": "default.y2"}
		}
	}
	w := &srcWorld{dbs: map[string]uint64{"default": 0}, colls: map[string]uint64{}, parts: map[string]uint64{}, collHist: map[string][]lifeSpan{}, partHist: map[string][]lifeSpan{}}
	ts := uint64(10)
	var id int64 = int64(idx)*10000 + 10
	n := 25 + r.Intn(40)
	dbNames := []string{"default", "dbA"}
	collNames := []string{"c1", "c2"}
	partNames := []string{"p1", "p2"}
	liveColls := func() []string {
		var out []string
		for k := range w.colls {
			out = append(out, k)
		}
		sort.Strings(out)
		return out
	}
	for len(hst.Ops) < n {
		ts += uint64(1 + r.Intn(3))
		id++
		db := dbNames[r.Intn(2)]
		coll := collNames[r.Intn(2)]
		part := partNames[r.Intn(2)]
		_, dbLive := w.dbs[db]
		cInc, collLive := w.colls[ckey(db, coll)]
		pInc, partLive := w.parts[pkey(db, coll, part)]
		op := hop{opSpec: opSpec{DB: db, Ts: ts, ID: id, Index: "idx", Field: "vec", Shards: 1}}
		op.DBInc = w.dbs[db]
		roll := r.Intn(100)
		switch {
		case !dbLive:
			op.Kind = "CreateDatabase"
			w.dbs[db] = ts
			op.DBInc = ts
		case roll < pDropDB && db != "default":
			// drop database: only when empty
			empty := true
			for k := range w.colls {
				if strings.HasPrefix(k, db+"/") {
					empty = false
				}
			}
			if !empty {
				continue
			}
			op.Kind = "DropDatabase"
			delete(w.dbs, db)
		case roll < pAlterDB && db != "default":
			op.Kind = "AlterDatabase"
			op.Props = [][2]string{{"database.replica.number", "1"}}
		case !collLive && dbFocus && db != "default" && roll >= 40:
			continue
		case !collLive && roll < 70:
			op.Kind, op.Coll = evCreateCollection, coll
			w.colls[ckey(db, coll)] = ts
			w.collHist[ckey(db, coll)] = append(w.collHist[ckey(db, coll)], lifeSpan{Create: ts})
			op.CollIncs = []uint64{ts}
		case !collLive:
			continue
		case roll < pDropColl:
			op.Kind, op.Coll, op.CollIncs = evDropCollection, coll, []uint64{cInc}
			delete(w.colls, ckey(db, coll))
			hs := w.collHist[ckey(db, coll)]
			hs[len(hs)-1].Drop = ts
			for _, p := range partNames {
				if _, ok := w.parts[pkey(db, coll, p)]; ok {
					delete(w.parts, pkey(db, coll, p))
					ph := w.partHist[pkey(db, coll, p)]
					ph[len(ph)-1].Drop = ts
				}
			}
		case roll < 36 && !partLive:
			op.Kind, op.Coll, op.CollIncs, op.Parts, op.PartIncs = evCreatePartition, coll, []uint64{cInc}, []string{part}, []uint64{ts}
			w.parts[pkey(db, coll, part)] = ts
			w.partHist[pkey(db, coll, part)] = append(w.partHist[pkey(db, coll, part)], lifeSpan{Create: ts})
		case roll < 46 && partLive:
			op.Kind, op.Coll, op.CollIncs, op.Parts, op.PartIncs = evDropPartition, coll, []uint64{cInc}, []string{part}, []uint64{pInc}
			delete(w.parts, pkey(db, coll, part))
			ph := w.partHist[pkey(db, coll, part)]
			ph[len(ph)-1].Drop = ts
		case roll < 60:
			// load / release partitions over the live partitions of the collection
			var ps []string
			var incs []uint64
			for _, p := range partNames {
				if c, ok := w.parts[pkey(db, coll, p)]; ok {
					ps = append(ps, p)
					incs = append(incs, c)
				}
			}
			if len(ps) == 0 {
				continue
			}
			op.Kind = []string{"LoadPartitions", "ReleasePartitions"}[r.Intn(2)]
			if mapped && op.Kind == "ReleasePartitions" {
				op.Kind = "LoadPartitions" // see Rule: kinds with a routing defect under mapping (C09) are left to C09
			}
			op.Coll, op.CollIncs, op.Parts, op.PartIncs, op.Replica = coll, []uint64{cInc}, ps, incs, 1
		case roll < 70:
			// flush over the live collections of the database
			op.Kind = "Flush"
			for _, k := range liveColls() {
				if strings.HasPrefix(k, normDB(db)+"/") {
					op.Colls = append(op.Colls, strings.SplitN(k, "/", 2)[1])
					op.CollIncs = append(op.CollIncs, w.colls[k])
				}
			}
		default:
			ks := []string{"CreateIndex", "DropIndex", "AlterIndex", "LoadCollection", "ReleaseCollection"}
			op.Kind = ks[r.Intn(len(ks))]
			if op.Kind == "AlterIndex" && (mapped || normDB(db) != "default") {
				op.Kind = "CreateIndex" // AlterIndex is routed to the default database (C09): left to C09
			}
			op.Coll, op.CollIncs = coll, []uint64{cInc}
		}
		hst.Ops = append(hst.Ops, op)
	}
	// delivery script
	k := n/2 + r.Intn(n/2+1)
	hst.Script = append(hst.Script, c08Step{Kind: "run", From: 0, To: k})
	rounds := 1 + r.Intn(2)
	for i := 0; i < rounds; i++ {
		from := r.Intn(k + 1)
		to := k + r.Intn(n-k+1)
		if r.Intn(2) == 0 {
			hst.Script = append(hst.Script, c08Step{Kind: "rewind", From: from, To: to})
		} else {
			hst.Script = append(hst.Script, c08Step{Kind: "restart", From: from, To: to, SnapAt: to + r.Intn(n-to+1)})
			if r.Intn(3) == 0 { // the source is exactly where the writer stopped
				hst.Script[len(hst.Script)-1].SnapAt = k
			}
		}
		k = to
	}
	return hst
}

// incarnation identity used by the reference
func incID(level, key string, create uint64) string {
	return fmt.Sprintf("%s:%s@%d", level, key, create)
}

// snapshotOf computes, from the first s operations of the history, (a) the dropped-object table as the statement
// of C15 describes it (entry exactly for names with a dropped incarnation; time = create(newer live namesake)-1,
// else now-1) and (b) the set of incarnations that table speaks about.
func snapshotOf(ops []hop, s int, downstreamHasDB func(srcDB string) bool) (map[string]map[string]uint64, map[string]bool) {
	type st struct {
		hist []lifeSpan
	}
	colls := map[string]*st{}
	parts := map[string]*st{}
	dbs := map[string]*st{}
	var now uint64 = 1
	get := func(m map[string]*st, k string) *st {
		if m[k] == nil {
			m[k] = &st{}
		}
		return m[k]
	}
	for _, op := range ops[:s] {
		now = op.Ts + 1
		switch op.Kind {
		case "CreateDatabase":
			x := get(dbs, normDB(op.DB))
			x.hist = append(x.hist, lifeSpan{Create: op.Ts})
		case "DropDatabase":
			x := get(dbs, normDB(op.DB))
			x.hist[len(x.hist)-1].Drop = op.Ts
		case evCreateCollection:
			x := get(colls, ckey(op.DB, op.Coll))
			x.hist = append(x.hist, lifeSpan{Create: op.Ts})
		case evDropCollection:
			x := get(colls, ckey(op.DB, op.Coll))
			x.hist[len(x.hist)-1].Drop = op.Ts
			for k, p := range parts {
				if strings.HasPrefix(k, ckey(op.DB, op.Coll)+"/") && len(p.hist) > 0 && p.hist[len(p.hist)-1].Drop == 0 {
					p.hist[len(p.hist)-1].Drop = op.Ts
				}
			}
		case evCreatePartition:
			x := get(parts, pkey(op.DB, op.Coll, op.Parts[0]))
			x.hist = append(x.hist, lifeSpan{Create: op.Ts})
		case evDropPartition:
			x := get(parts, pkey(op.DB, op.Coll, op.Parts[0]))
			x.hist[len(x.hist)-1].Drop = op.Ts
		}
	}
	table := map[string]map[string]uint64{util.DroppedDatabaseKey: {}, util.DroppedCollectionKey: {}, util.DroppedPartitionKey: {}}
	dead := map[string]bool{}
	fill := func(level string, m map[string]*st, top string) {
		for k, x := range m {
			hasDropped := false
			var liveCreate uint64
			live := false
			for _, l := range x.hist {
				if l.Drop != 0 {
					hasDropped = true
					dead[incID(level, k, l.Create)] = true
				} else {
					live, liveCreate = true, l.Create
				}
			}
			if !hasDropped {
				continue
			}
			seg := strings.Split(k, "/")
			var dropKey string
			if level == "coll" {
				_, dropKey = util.GetCollectionInfoKeys(seg[1], seg[0])
			} else {
				_, dropKey = util.GetPartitionInfoKeys(seg[2], seg[1], seg[0])
			}
			if live {
				table[top][dropKey] = liveCreate - 1
			} else {
				table[top][dropKey] = now - 1
			}
		}
	}
	fill("coll", colls, util.DroppedCollectionKey)
	fill("part", parts, util.DroppedPartitionKey)
	// databases: every dropped incarnation is gone as far as the source is concerned; the table has an entry
	// only for a database gone upstream (no live namesake) that the downstream still holds
	for k, x := range dbs {
		live := false
		for _, l := range x.hist {
			if l.Drop != 0 {
				dead[incID("db", k, l.Create)] = true
			} else {
				live = true
			}
		}
		if len(x.hist) > 0 && !live && downstreamHasDB(k) {
			_, dk := util.GetDBInfoKeys(k)
			table[util.DroppedDatabaseKey][dk] = now - 1
		}
	}
	return table, dead
}

var dropKinds = map[string]string{evDropCollection: "coll", evDropPartition: "part", "DropDatabase": "db"}
var createKinds = map[string]string{evCreateCollection: "coll", evCreatePartition: "part", "CreateDatabase": "db"}

func c08RunHistory(run *vf.Run, hst c08History) {
	run.Eval(1)
	ref := nameMap(hst.Mapping)
	cat := wfakes.NewCatalog()
	h := &wfakes.Handler{Catalog: cat}
	w, err := newWriter(h, wcfg{Mapping: hst.Mapping})
	if err != nil {
		run.Inconclusive(err.Error())
		return
	}
	known := map[string]bool{} // incarnations this writer instance has been told are dropped
	var trace []string
	sigParts := map[string]bool{}
	stopped := false
	vio := func(key, desc string, op *hop) {
		stopped = true // writer tables and downstream are tainted from here on: one violation per history
		// one defect, one key: the two database-level handlers consult no table at all, so every misbehaviour
		// of theirs on a dropped incarnation (landing on a newer one, failing the task) has that one cause
		if (op.Kind == "DropDatabase" || op.Kind == "AlterDatabase") && !strings.Contains(key, "current-incarnation") {
			key = "C08/" + op.Kind + "-not-gated-by-database-tables"
		}
		t := trace
		if len(t) > 60 {
			t = t[len(t)-60:]
		}
		run.Violate(key, fmt.Sprintf("history %d: %s", hst.Idx, desc), map[string]any{"history": hst, "operation": op, "trace_tail": t})
	}
	deliverOne := func(op *hop, phase string) {
		kind := op.Kind
		// chain of incarnations
		dbID := incID("db", normDB(op.DB), op.DBInc)
		parentsDead := known[dbID] && normDB(op.DB) != "default"
		ownLevel := ""
		if l, ok := dropKinds[kind]; ok {
			ownLevel = l
		}
		if l, ok := createKinds[kind]; ok {
			ownLevel = l
		}
		if ownLevel == "db" {
			parentsDead = false
		}
		ownDead := ownLevel == "db" && known[dbID]
		// member lists
		var liveColls, deadColls, liveParts, deadParts []string
		switch {
		case kind == "Flush":
			for i, c := range op.Colls {
				if known[incID("coll", ckey(op.DB, c), op.CollIncs[i])] {
					deadColls = append(deadColls, c)
				} else {
					liveColls = append(liveColls, c)
				}
			}
		case op.Coll != "":
			cid := incID("coll", ckey(op.DB, op.Coll), op.CollIncs[0])
			if ownLevel == "coll" {
				ownDead = known[cid]
			} else if known[cid] {
				parentsDead = true
			}
			for i, p := range op.Parts {
				pid := incID("part", pkey(op.DB, op.Coll, p), op.PartIncs[i])
				if ownLevel == "part" {
					ownDead = known[pid]
				} else if known[pid] {
					deadParts = append(deadParts, p)
				} else {
					liveParts = append(liveParts, p)
				}
			}
		}
		dead := parentsDead
		if kind == "Flush" && len(liveColls) == 0 {
			dead = true
		}
		if (kind == "LoadPartitions" || kind == "ReleasePartitions") && len(liveParts) == 0 {
			dead = true
		}
		if kind == "AlterDatabase" && known[dbID] {
			dead = true
		}
		before := cat.Snapshot()
		n0 := h.Len()
		spec := op.opSpec
		_, derr := deliver(w, &spec)
		calls := h.Since(n0)
		np := nonProbe(calls)
		trace = append(trace, fmt.Sprintf("%s %s %s.%s%v@%d -> calls[%s] err=%s", phase, kind, op.DB, op.Coll+strings.Join(op.Colls, "+"), op.Parts, op.Ts, names(calls), errStr(derr)))
		// R4: a call that lands on a newer incarnation than the one the operation was issued for
		hitNewer := ""
		for _, c := range np {
			switch c.Kind {
			case wfakes.KDropDatabase, wfakes.KAlterDatabase:
				var name string
				if r, ok := c.Req.(*milvuspb.DropDatabaseRequest); ok {
					name = r.GetDbName()
				} else if r, ok := c.Req.(*milvuspb.AlterDatabaseRequest); ok {
					name = r.GetDbName()
				}
				if tag, ok := before.DB(name); ok && tag > op.DBInc && normDB(name) != "default" {
					hitNewer = fmt.Sprintf("database %s: downstream incarnation created@%d, operation issued for the incarnation created@%d", name, tag, op.DBInc)
				}
			case wfakes.KCreateDatabase, wfakes.KCreateCollection, wfakes.KCreatePartition:
				// creation of something that exists is a no-op downstream
			case wfakes.KFlush:
				for i, cn := range op.Colls {
					mdb, mc, _ := ref.ref(op.DB, cn)
					if tag, ok := before.Coll(mdb, mc); ok && tag > op.CollIncs[i] && inList(c.Req.(*milvuspb.FlushRequest).GetCollectionNames(), mc) {
						hitNewer = fmt.Sprintf("collection %s.%s: downstream incarnation created@%d, operation issued for @%d", mdb, mc, tag, op.CollIncs[i])
					}
				}
			default:
				if op.Coll == "" {
					break
				}
				mdb, mc, _ := ref.ref(op.DB, op.Coll)
				if tag, ok := before.Coll(mdb, mc); ok && tag > op.CollIncs[0] {
					hitNewer = fmt.Sprintf("collection %s.%s: downstream incarnation created@%d, operation issued for @%d", mdb, mc, tag, op.CollIncs[0])
				}
				for i, p := range op.Parts {
					if tag, ok := before.Part(mdb, mc, p); ok && tag > op.PartIncs[i] && callNamesPartition(c, p) {
						hitNewer = fmt.Sprintf("partition %s.%s/%s: downstream incarnation created@%d, operation issued for @%d", mdb, mc, p, tag, op.PartIncs[i])
					}
				}
			}
		}
		restore := false
		defer func() {
			if restore {
				cat.Restore(before)
			}
		}()
		if hitNewer != "" {
			restore = true
			run.Count("ops_hitting_newer_incarnation", 1)
			vio("C08/"+kind+"-hits-newer-incarnation", fmt.Sprintf("%s of %s.%s%v stamped %d (%s) was executed downstream (%s) and landed on a newer incarnation: %s", kind, op.DB, op.Coll, op.Parts, op.Ts, phase, names(np), hitNewer), op)
			return
		}
		switch {
		case dead:
			run.Count("dead_ops_"+kind, 1)
			sigParts[kind+":dead"] = true
			switch {
			case derr != nil:
				key := "C08/" + kind + "-error-for-dropped-incarnation"
				if _, ok := cat.DB(dbTarget(ref, op)); !ok && kind != "AlterDatabase" {
					key = "C08/error-for-dropped-object-of-database-gone-downstream"
				}
				restore = true
				vio(key, fmt.Sprintf("%s of %s.%s%v%v stamped %d (%s): belongs to an incarnation this writer knows to be dropped; must be skipped successfully, returned %v (calls %s)", kind, op.DB, op.Coll, op.Colls, op.Parts, op.Ts, phase, derr, names(calls)), op)
			case len(np) > 0:
				// executed, succeeded, and did not land on a newer incarnation (checked above): the object it
				// landed on is the operation's own incarnation, re-created by replayed create events of this
				// very replay (a replayed older drop event rewrites the recorded drop time). Harmless; whether
				// the recorded times must survive replayed drops is not in the statement: tolerated, counted.
				run.Count("dead_ops_executed_on_replay_recreated_own_incarnation", 1)
			default:
				run.Count("skipped_"+kind, 1)
			}
		case ownDead:
			// a create/drop replayed for its own, already dropped incarnation: the statement's wording covers
			// operations ON an object; executing or skipping is tolerated as long as no newer incarnation is
			// touched (checked above) and the task does not fail
			run.Count("unspecified_own_level_replays_"+kind, 1)
			sigParts[kind+":own-dead"] = true
			if derr != nil {
				key := "C08/" + kind + "-error-for-dropped-incarnation"
				if _, ok := cat.DB(dbTarget(ref, op)); !ok && ownLevel != "db" {
					key = "C08/error-for-dropped-object-of-database-gone-downstream"
				}
				restore = true
				vio(key, fmt.Sprintf("%s of %s.%s%v stamped %d (%s) replayed for an incarnation known to be dropped returned %v (calls %s)", kind, op.DB, op.Coll, op.Parts, op.Ts, phase, derr, names(calls)), op)
			}
		default:
			run.Count("live_ops_"+kind, 1)
			sigParts[kind+":live"] = true
			if derr != nil {
				vio("C08/"+kind+"-error-for-current-incarnation", fmt.Sprintf("%s of %s.%s%v%v stamped %d (%s): every incarnation on its chain is current, returned %v (calls %s)", kind, op.DB, op.Coll, op.Colls, op.Parts, op.Ts, phase, derr, names(calls)), op)
				return
			}
			if len(np) != 1 || np[0].Kind != callKindOf[kind] {
				vio("C08/"+kind+"-skipped-for-current-incarnation", fmt.Sprintf("%s of %s.%s%v%v stamped %d (%s): every incarnation on its chain is current; expected one %s call, got [%s]", kind, op.DB, op.Coll, op.Colls, op.Parts, op.Ts, phase, callKindOf[kind], names(np)), op)
				return
			}
			run.Count("applied_"+kind, 1)
			// members of lists: dropped ones removed, current ones kept
			c := np[0]
			switch kind {
			case "Flush":
				got := c.Req.(*milvuspb.FlushRequest).GetCollectionNames()
				for _, cn := range liveColls {
					_, mc, _ := ref.ref(op.DB, cn)
					if !inList(got, mc) {
						vio("C08/Flush-current-collection-missing-from-list", fmt.Sprintf("flush stamped %d: current collection %s missing from %v", op.Ts, cn, got), op)
					}
				}
				for _, cn := range deadColls {
					_, mc, _ := ref.ref(op.DB, cn)
					if inList(got, mc) {
						run.Count("dead_ops_executed_on_replay_recreated_own_incarnation", 1)
					}
				}
				if len(deadColls) > 0 {
					run.Count("lists_with_dropped_members", 1)
				}
			case "LoadPartitions", "ReleasePartitions":
				var got []string
				if r, ok := c.Req.(*milvuspb.LoadPartitionsRequest); ok {
					got = r.GetPartitionNames()
				} else {
					got = c.Req.(*milvuspb.ReleasePartitionsRequest).GetPartitionNames()
				}
				for _, p := range liveParts {
					if !inList(got, p) {
						vio("C08/"+kind+"-current-partition-missing-from-list", fmt.Sprintf("%s stamped %d: current partition %s missing from %v", kind, op.Ts, p, got), op)
					}
				}
				for _, p := range deadParts {
					if inList(got, p) {
						run.Count("dead_ops_executed_on_replay_recreated_own_incarnation", 1)
					}
				}
				if len(deadParts) > 0 {
					run.Count("lists_with_dropped_members", 1)
				}
			}
		}
		// what this writer instance now knows: a drop it executed successfully
		if l, ok := dropKinds[kind]; ok && derr == nil && len(np) == 1 {
			switch l {
			case "db":
				known[dbID] = true
			case "coll":
				known[incID("coll", ckey(op.DB, op.Coll), op.CollIncs[0])] = true
			case "part":
				known[incID("part", pkey(op.DB, op.Coll, op.Parts[0]), op.PartIncs[0])] = true
			}
		}
	}
	for _, st := range hst.Script {
		switch st.Kind {
		case "restart":
			table, dead := snapshotOf(hst.Ops, st.SnapAt, func(src string) bool {
				m, _ := ref.refDB(src)
				_, ok := cat.DB(m)
				return ok
			})
			nw, err := newWriter(h, wcfg{Mapping: hst.Mapping, Dropped: table})
			if err != nil {
				run.Inconclusive(err.Error())
				return
			}
			w = nw
			known = dead
			trace = append(trace, fmt.Sprintf("-- restart: snapshot of source after %d ops: %v; replay from %d", st.SnapAt, table, st.From))
			run.Count("restarts", 1)
		case "rewind":
			trace = append(trace, fmt.Sprintf("-- rewind to %d", st.From))
			run.Count("rewinds", 1)
		}
		for i := st.From; i < st.To && !stopped; i++ {
			deliverOne(&hst.Ops[i], st.Kind)
		}
		if stopped {
			break
		}
	}
	var sp []string
	for k := range sigParts {
		sp = append(sp, k)
	}
	sort.Strings(sp)
	run.Nontrivial(fmt.Sprintf("map=%v|%s", len(hst.Mapping) > 0, strings.Join(sp, ",")))
}

func dbTarget(ref nameMap, op *hop) string {
	c := op.Coll
	if c == "" && len(op.Colls) > 0 {
		c = op.Colls[0]
	}
	db, _, _ := ref.ref(op.DB, c)
	return db
}

func inList(l []string, x string) bool {
	for _, e := range l {
		if e == x {
			return true
		}
	}
	return false
}

func callNamesPartition(c *wfakes.Call, p string) bool {
	switch r := c.Req.(type) {
	case *milvuspb.LoadPartitionsRequest:
		return inList(r.GetPartitionNames(), p)
	case *milvuspb.ReleasePartitionsRequest:
		return inList(r.GetPartitionNames(), p)
	}
	return c.Part == p
}

// ---------- Part C ----------

var c08cKinds = []string{evCreatePartition, evDropPartition, "Flush", "CreateIndex", "DropIndex", "AlterIndex", "LoadCollection", "ReleaseCollection", "LoadPartitions", "ReleasePartitions"}

// c08ConcurrentDrop: the collection (or the partition, for partition lists) is dropped by a drop event delivered
// to the same writer while the operation's downstream call is in flight, so the call fails downstream. The drop
// is stamped later than the operation: the object is now known to have been dropped at or after t.
func c08ConcurrentDrop(run *vf.Run, kind string, variant int, id int64) {
	run.Eval(1)
	db := []string{"default", "dbA"}[variant%2]
	if kind == "AlterIndex" {
		db = "default" // AlterIndex is routed to the default database whatever the source says (C09)
	}
	dropPartition := (kind == "LoadPartitions" || kind == "ReleasePartitions") && variant%4 >= 2
	cat := wfakes.NewCatalog()
	cat.PutDB(db, 1)
	cat.PutColl(db, "c1", 5)
	cat.PutPart(db, "c1", "p1", 6)
	h := &wfakes.Handler{Catalog: cat}
	var w *writer.ChannelWriter
	var once sync.Once
	var dropErr error
	m := uint64(20)
	h.Decide = func(c *wfakes.Call) error {
		if c.Kind != callKindOf[kind] {
			return nil
		}
		once.Do(func() {
			done := make(chan struct{})
			go func() { // the event goroutine of the server
				defer close(done)
				ds := &opSpec{Kind: evDropCollection, DB: db, Coll: "c1", Ts: m + 5, ID: id + 1}
				if dropPartition {
					ds = &opSpec{Kind: evDropPartition, DB: db, Coll: "c1", Parts: []string{"p1"}, Ts: m + 5, ID: id + 1}
				}
				_, dropErr = deliver(w, ds)
			}()
			select {
			case <-done:
			case <-time.After(60 * time.Second):
				dropErr = fmt.Errorf("watchdog: concurrent drop did not finish")
			}
		})
		return nil
	}
	var err error
	w, err = newWriter(h, wcfg{})
	if err != nil {
		run.Inconclusive(err.Error())
		return
	}
	spec := c08Spec(kind, db, "c1", "p1", m, id)
	_, derr := deliver(w, spec)
	calls := h.Calls()
	if dropErr != nil {
		run.Inconclusive(fmt.Sprintf("concurrent drop for %s failed: %v", kind, dropErr))
		return
	}
	failed := false
	for _, c := range calls {
		if c.Kind == callKindOf[kind] && c.Err != "" {
			failed = true
		}
	}
	if !failed {
		// drop partition of a dropped collection etc. may legitimately succeed downstream; nothing to decide
		run.Count("concurrent_drop_call_did_not_fail", 1)
		return
	}
	run.Count("concurrent_drop_cases", 1)
	run.Count("concurrent_drop_"+kind, 1)
	run.Nontrivial(fmt.Sprintf("concurrent-drop|%s|db=%s|part=%v", kind, db, dropPartition))
	if derr != nil {
		run.Violate("C08/"+kind+"-fails-after-concurrent-drop",
			fmt.Sprintf("%s on %s.c1 stamped %d: the object was dropped (event stamped %d, handled by this writer) while the downstream call was in flight; the call failed downstream; the object is now known to be dropped at or after t, so the operation must be skipped successfully, but it returned: %v (calls %s)", kind, db, m, m+5, derr, names(calls)),
			map[string]any{"kind": kind, "db": db, "drop_partition": dropPartition, "op_ts": m, "drop_ts": m + 5})
	}
}

func runC08(tier string) *vf.Run {
	run := vf.NewRun("C08", tier, "exploration")
	run.Exhaustive = true
	run.Extra("exhaustive_part", "Part A only (order-type sweep of the decision, pure and public); Parts B and C are sampled")
	run.Rule = "Part A (exhaustive): all (m,c,d) over 8 boundary values x 4 presence combinations through VerifObjState; all (m,c,d) in {1,2,3}^3 (the 13 weak orderings) x 4 presence combinations x 3 levels through the public entry points with tables seeded via droppedObjs (operation kinds rotate over every kind that consults the level) and through Wait*Ready; distinct = order-type cell x level. Part B: generated source histories of 25-64 operations over 2 databases x 2 collections x 2 partitions (create/drop/re-create, index/load/release/flush/alter in between; 1/3 with a name mapping; kinds whose routing is wrong under a mapping (AlterIndex, ReleasePartitions, see C09) are not used in mapped histories), delivered with rewinds and restarts (dropped-object table computed as the statement of C15 says); non-trivial = every history; distinct by the set of (kind, dead/live/own-level-replay) it exercised. Part C: object dropped while the downstream call is in flight, per kind x database x drop level."
	run.Assumptions = []string{
		"the downstream catalog answers like Milvus behind MilvusDataHandler: idempotent creates, drop of a missing collection/partition/database succeeds, any other call on a missing object or routed to a missing database fails",
		"the dropped-object table handed to a restarted writer is the one the statement of C15 describes (entries for collections and partitions with a dropped incarnation; no database entries: databases dropped upstream are dropped downstream too in these histories)",
		"a create or drop replayed for its own already-dropped incarnation is not decided by the statement unless it touches a newer incarnation or fails the task; such deliveries are counted as unspecified_own_level_replays_*",
		"cells with recorded create time == recorded drop time are unspecified by the statement (counted, tolerated)",
	}
	c08PartA(run)
	// Part C, in parallel: failing paths back off for whole seconds
	var wg sync.WaitGroup
	sem := make(chan struct{}, 16)
	reps := run.Pick(4, 16)
	var id int64 = 500000
	for _, k := range c08cKinds {
		for v := 0; v < reps; v++ {
			id += 10
			wg.Add(1)
			sem <- struct{}{}
			go func(k string, v int, id int64) {
				defer func() { <-sem; wg.Done() }()
				c08ConcurrentDrop(run, k, v, id)
			}(k, v, id)
		}
	}
	// Part B, in parallel
	n := run.Pick(1200, 40000)
	for i := 0; i < n; i++ {
		hst := genHistory(run.Seed, i)
		if i < 1 {
			run.Sample(map[string]any{"history": hst.Idx, "n_ops": len(hst.Ops), "script": hst.Script, "first_ops": hst.Ops[:6]})
		}
		wg.Add(1)
		sem <- struct{}{}
		go func(hst c08History) {
			defer func() { <-sem; wg.Done() }()
			c08RunHistory(run, hst)
		}(hst)
	}
	wg.Wait()
	run.Floor("pure_cells", 52)
	run.Floor("public_cells", 156)
	run.Floor("probe_then_live_checks", 20)
	run.Floor("restarts", run.Pick(60, 1500))
	run.Floor("rewinds", run.Pick(60, 1500))
	run.Floor("concurrent_drop_cases", run.Pick(12, 48))
	for _, k := range []string{"Flush", "CreateIndex", "DropIndex", "AlterIndex", "LoadCollection", "ReleaseCollection", "LoadPartitions", "ReleasePartitions", evCreatePartition, evDropPartition} {
		run.Floor("skipped_"+k, 10)
		run.Floor("applied_"+k, 10)
	}
	for _, k := range []string{evCreateCollection, evDropCollection, "CreateDatabase", "DropDatabase", "AlterDatabase"} {
		run.Floor("applied_"+k, 10)
	}
	return run
}
