package main

// Shared pieces of writerrig: construction of the real ChannelWriter over the recording handler, the reference
// name mapping, and builders that turn a small JSON-able operation description (opSpec) into the real
// msgstream op-message pack / api.ReplicateAPIEvent the writer consumes.

import (
	"context"
	"fmt"
	"math/rand"
	"strings"

	"github.com/milvus-io/milvus-proto/go-api/v2/commonpb"
	"github.com/milvus-io/milvus-proto/go-api/v2/milvuspb"
	"github.com/milvus-io/milvus-proto/go-api/v2/msgpb"
	"github.com/milvus-io/milvus-proto/go-api/v2/schemapb"
	"github.com/milvus-io/milvus/pkg/mq/msgstream"

	"github.com/zilliztech/milvus-cdc/core/api"
	"github.com/zilliztech/milvus-cdc/core/config"
	"github.com/zilliztech/milvus-cdc/core/pb"
	"github.com/zilliztech/milvus-cdc/core/writer"

	"verifharness/internal/vf"
	"verifharness/internal/wfakes"
)

type wcfg struct {
	ReplicateID string
	Mapping     map[string]string
	Dropped     map[string]map[string]uint64
}

// newWriter builds the real ChannelWriter (real replicateMessageManager, real meta.ReplicateMeteImpl over an
// in-memory store) on top of the recording handler. Retry: 2 attempts, 1 s back-off (0 would mean two days).
func newWriter(h *wfakes.Handler, cfg wcfg) (*writer.ChannelWriter, error) {
	m, _, err := wfakes.NewMeta()
	if err != nil {
		return nil, err
	}
	dropped := cfg.Dropped
	if dropped == nil {
		dropped = map[string]map[string]uint64{}
	}
	w := writer.NewChannelWriter(h, m, config.WriterConfig{
		MessageBufferSize: 10,
		Retry:             config.RetrySettings{RetryTimes: 2, InitBackOff: 1, MaxBackOff: 1},
		ReplicateID:       cfg.ReplicateID,
	}, dropped, "milvus")
	cw, ok := w.(*writer.ChannelWriter)
	if !ok {
		return nil, fmt.Errorf("NewChannelWriter returned %T", w)
	}
	if len(cfg.Mapping) > 0 {
		cw.UpdateNameMappings(cfg.Mapping)
	}
	return cw, nil
}

func normDB(db string) string {
	if db == "" {
		return "default"
	}
	return db
}

// ---- reference name mapping: exact entry, else whole-database entry, else unchanged ("" == "default") ----

type nameMap map[string]string // "db.coll" -> "db.coll", "db.*" -> "db.*"

func split2(full string) (string, string) {
	i := strings.IndexByte(full, '.')
	return full[:i], full[i+1:]
}

// ref returns the mapped (db, collection) of a collection-level name and which rule applied.
func (m nameMap) ref(db, coll string) (string, string, string) {
	db = normDB(db)
	if t, ok := m[db+"."+coll]; ok && coll != "" && coll != "*" {
		tdb, tcoll := split2(t)
		return tdb, tcoll, "exact"
	}
	if t, ok := m[db+".*"]; ok {
		tdb, _ := split2(t)
		return tdb, coll, "whole-db"
	}
	return db, coll, "identity"
}

// refDB returns the database names acceptable for a database-level operation (no collection): the whole-database
// entry's target if there is one, else the name unchanged. must = the names the statement allows; the statement
// does not say what a database-level operation does when only collection-level entries exist for that database,
// so the targets of those entries are returned as "unspecified" alternatives.
func (m nameMap) refDB(db string) (must string, unspecified []string) {
	db = normDB(db)
	must = db
	if t, ok := m[db+".*"]; ok {
		must, _ = split2(t)
	}
	for s, t := range m {
		sdb, sc := split2(s)
		if sdb == db && sc != "*" {
			tdb, _ := split2(t)
			if tdb != must {
				unspecified = append(unspecified, tdb)
			}
		}
	}
	return must, unspecified
}

// ---- operation descriptions ----

const (
	evCreateCollection = "EvCreateCollection"
	evDropCollection   = "EvDropCollection"
	evCreatePartition  = "EvCreatePartition"
	evDropPartition    = "EvDropPartition"
)

var opMsgKinds = []string{
	"CreateDatabase", "DropDatabase", "AlterDatabase", "Flush", "CreateIndex", "DropIndex", "AlterIndex",
	"LoadCollection", "ReleaseCollection", "LoadPartitions", "ReleasePartitions",
	"CreateCredential", "DeleteCredential", "UpdateCredential", "CreateRole", "DropRole", "OperateUserRole", "OperatePrivilege",
}

var eventKinds = []string{evCreateCollection, evDropCollection, evCreatePartition, evDropPartition}

// callKindOf: the api.DataHandler method an operation kind must end in.
var callKindOf = map[string]string{
	"CreateDatabase": wfakes.KCreateDatabase, "DropDatabase": wfakes.KDropDatabase, "AlterDatabase": wfakes.KAlterDatabase,
	"Flush": wfakes.KFlush, "CreateIndex": wfakes.KCreateIndex, "DropIndex": wfakes.KDropIndex, "AlterIndex": wfakes.KAlterIndex,
	"LoadCollection": wfakes.KLoadCollection, "ReleaseCollection": wfakes.KReleaseCollection,
	"LoadPartitions": wfakes.KLoadPartitions, "ReleasePartitions": wfakes.KReleasePartitions,
	"CreateCredential": wfakes.KCreateUser, "DeleteCredential": wfakes.KDeleteUser, "UpdateCredential": wfakes.KUpdateUser,
	"CreateRole": wfakes.KCreateRole, "DropRole": wfakes.KDropRole, "OperateUserRole": wfakes.KOperateUserRole,
	"OperatePrivilege": wfakes.KOperatePrivilege,
	evCreateCollection: wfakes.KCreateCollection, evDropCollection: wfakes.KDropCollection,
	evCreatePartition: wfakes.KCreatePartition, evDropPartition: wfakes.KDropPartition,
}

type fieldSpec struct {
	Name     string      `json:"name"`
	Type     int32       `json:"type"`
	PK       bool        `json:"pk,omitempty"`
	AutoID   bool        `json:"auto_id,omitempty"`
	Desc     string      `json:"desc,omitempty"`
	Params   [][2]string `json:"params,omitempty"`
	Dynamic  bool        `json:"dynamic,omitempty"`
	PartKey  bool        `json:"part_key,omitempty"`
	ClustKey bool        `json:"clust_key,omitempty"`
	Elem     int32       `json:"elem,omitempty"`
}

type opSpec struct {
	Kind  string   `json:"kind"`
	DB    string   `json:"db"`
	Coll  string   `json:"coll,omitempty"`
	Colls []string `json:"colls,omitempty"` // flush
	Parts []string `json:"parts,omitempty"` // load/release partitions; partition events use Parts[0]
	Ts    uint64   `json:"ts"`
	ID    int64    `json:"id"`
	// PreStamp: the source message already carries a ReplicateInfo (1: of an upstream replication, 2: a non-replicate one)
	PreStamp int `json:"pre_stamp,omitempty"`

	Index      string      `json:"index,omitempty"`
	Field      string      `json:"field,omitempty"`
	Extra      [][2]string `json:"extra,omitempty"`
	DeleteKeys []string    `json:"delete_keys,omitempty"`
	Replica    int32       `json:"replica,omitempty"`
	RGs        []string    `json:"rgs,omitempty"`

	User      string `json:"user,omitempty"`
	Pwd       string `json:"pwd,omitempty"`
	OldPwd    string `json:"old_pwd,omitempty"`
	NewPwd    string `json:"new_pwd,omitempty"`
	Role      string `json:"role,omitempty"`
	URType    int32  `json:"ur_type,omitempty"`
	PrivType  int32  `json:"priv_type,omitempty"`
	Object    string `json:"object,omitempty"`
	ObjName   string `json:"obj_name,omitempty"`
	Privilege string `json:"privilege,omitempty"`
	Grantor   string `json:"grantor,omitempty"`
	GrantDB   string `json:"grant_db,omitempty"`

	// create collection event
	Desc        string      `json:"desc,omitempty"`
	AutoID      bool        `json:"auto_id,omitempty"`
	DynField    bool        `json:"dyn_field,omitempty"`
	Fields      []fieldSpec `json:"fields,omitempty"`
	Shards      int32       `json:"shards,omitempty"`
	Consistency int32       `json:"consistency,omitempty"`
	Props       [][2]string `json:"props,omitempty"`
}

func isEvent(kind string) bool { return strings.HasPrefix(kind, "Ev") }

func kvs(p [][2]string) []*commonpb.KeyValuePair {
	if p == nil {
		return nil
	}
	out := make([]*commonpb.KeyValuePair, 0, len(p))
	for _, e := range p {
		out = append(out, &commonpb.KeyValuePair{Key: e[0], Value: e[1]})
	}
	return out
}

func (s *opSpec) base(t commonpb.MsgType) *commonpb.MsgBase {
	b := &commonpb.MsgBase{MsgType: t, MsgID: s.ID, Timestamp: s.Ts, SourceID: 1}
	switch s.PreStamp {
	case 1: // the source operation was itself written by a replication (cascade): it carries that replication's stamp
		b.ReplicateInfo = &commonpb.ReplicateInfo{IsReplicate: true, MsgTimestamp: s.Ts/2 + 7, ReplicateID: "upstream-rid"}
	case 2:
		b.ReplicateInfo = &commonpb.ReplicateInfo{IsReplicate: false, MsgTimestamp: 7}
	}
	return b
}

func (s *opSpec) baseMsg() msgstream.BaseMsg {
	return msgstream.BaseMsg{BeginTimestamp: s.Ts, EndTimestamp: s.Ts, HashValues: []uint32{0}}
}

// buildOpMsg renders an op-message description into the msgstream message the reader would hand over.
func buildOpMsg(s *opSpec) msgstream.TsMsg {
	switch s.Kind {
	case "CreateDatabase":
		return &msgstream.CreateDatabaseMsg{BaseMsg: s.baseMsg(), CreateDatabaseRequest: &milvuspb.CreateDatabaseRequest{Base: s.base(commonpb.MsgType_CreateDatabase), DbName: s.DB, Properties: kvs(s.Props)}}
	case "DropDatabase":
		return &msgstream.DropDatabaseMsg{BaseMsg: s.baseMsg(), DropDatabaseRequest: &milvuspb.DropDatabaseRequest{Base: s.base(commonpb.MsgType_DropDatabase), DbName: s.DB}}
	case "AlterDatabase":
		return &msgstream.AlterDatabaseMsg{BaseMsg: s.baseMsg(), AlterDatabaseRequest: &milvuspb.AlterDatabaseRequest{Base: s.base(commonpb.MsgType_AlterDatabase), DbName: s.DB, Properties: kvs(s.Props), DeleteKeys: s.DeleteKeys}}
	case "Flush":
		return &msgstream.FlushMsg{BaseMsg: s.baseMsg(), FlushRequest: &milvuspb.FlushRequest{Base: s.base(commonpb.MsgType_Flush), DbName: s.DB, CollectionNames: append([]string(nil), s.Colls...)}}
	case "CreateIndex":
		return &msgstream.CreateIndexMsg{BaseMsg: s.baseMsg(), CreateIndexRequest: &milvuspb.CreateIndexRequest{Base: s.base(commonpb.MsgType_CreateIndex), DbName: s.DB, CollectionName: s.Coll, FieldName: s.Field, IndexName: s.Index, ExtraParams: kvs(s.Extra)}}
	case "DropIndex":
		return &msgstream.DropIndexMsg{BaseMsg: s.baseMsg(), DropIndexRequest: &milvuspb.DropIndexRequest{Base: s.base(commonpb.MsgType_DropIndex), DbName: s.DB, CollectionName: s.Coll, FieldName: s.Field, IndexName: s.Index}}
	case "AlterIndex":
		return &msgstream.AlterIndexMsg{BaseMsg: s.baseMsg(), AlterIndexRequest: &milvuspb.AlterIndexRequest{Base: s.base(commonpb.MsgType_AlterIndex), DbName: s.DB, CollectionName: s.Coll, IndexName: s.Index, ExtraParams: kvs(s.Extra), DeleteKeys: s.DeleteKeys}}
	case "LoadCollection":
		return &msgstream.LoadCollectionMsg{BaseMsg: s.baseMsg(), LoadCollectionRequest: &milvuspb.LoadCollectionRequest{Base: s.base(commonpb.MsgType_LoadCollection), DbName: s.DB, CollectionName: s.Coll, ReplicaNumber: s.Replica, ResourceGroups: s.RGs}}
	case "ReleaseCollection":
		return &msgstream.ReleaseCollectionMsg{BaseMsg: s.baseMsg(), ReleaseCollectionRequest: &milvuspb.ReleaseCollectionRequest{Base: s.base(commonpb.MsgType_ReleaseCollection), DbName: s.DB, CollectionName: s.Coll}}
	case "LoadPartitions":
		return &msgstream.LoadPartitionsMsg{BaseMsg: s.baseMsg(), LoadPartitionsRequest: &milvuspb.LoadPartitionsRequest{Base: s.base(commonpb.MsgType_LoadPartitions), DbName: s.DB, CollectionName: s.Coll, PartitionNames: append([]string(nil), s.Parts...), ReplicaNumber: s.Replica, ResourceGroups: s.RGs}}
	case "ReleasePartitions":
		return &msgstream.ReleasePartitionsMsg{BaseMsg: s.baseMsg(), ReleasePartitionsRequest: &milvuspb.ReleasePartitionsRequest{Base: s.base(commonpb.MsgType_ReleasePartitions), DbName: s.DB, CollectionName: s.Coll, PartitionNames: append([]string(nil), s.Parts...)}}
	case "CreateCredential":
		return &msgstream.CreateUserMsg{BaseMsg: s.baseMsg(), CreateCredentialRequest: &milvuspb.CreateCredentialRequest{Base: s.base(commonpb.MsgType_CreateCredential), Username: s.User, Password: s.Pwd, CreatedUtcTimestamps: s.Ts, ModifiedUtcTimestamps: s.Ts}}
	case "DeleteCredential":
		return &msgstream.DeleteUserMsg{BaseMsg: s.baseMsg(), DeleteCredentialRequest: &milvuspb.DeleteCredentialRequest{Base: s.base(commonpb.MsgType_DeleteCredential), Username: s.User}}
	case "UpdateCredential":
		return &msgstream.UpdateUserMsg{BaseMsg: s.baseMsg(), UpdateCredentialRequest: &milvuspb.UpdateCredentialRequest{Base: s.base(commonpb.MsgType_UpdateCredential), Username: s.User, OldPassword: s.OldPwd, NewPassword: s.NewPwd, ModifiedUtcTimestamps: s.Ts}}
	case "CreateRole":
		return &msgstream.CreateRoleMsg{BaseMsg: s.baseMsg(), CreateRoleRequest: &milvuspb.CreateRoleRequest{Base: s.base(commonpb.MsgType_CreateRole), Entity: &milvuspb.RoleEntity{Name: s.Role}}}
	case "DropRole":
		return &msgstream.DropRoleMsg{BaseMsg: s.baseMsg(), DropRoleRequest: &milvuspb.DropRoleRequest{Base: s.base(commonpb.MsgType_DropRole), RoleName: s.Role}}
	case "OperateUserRole":
		return &msgstream.OperateUserRoleMsg{BaseMsg: s.baseMsg(), OperateUserRoleRequest: &milvuspb.OperateUserRoleRequest{Base: s.base(commonpb.MsgType_OperateUserRole), Username: s.User, RoleName: s.Role, Type: milvuspb.OperateUserRoleType(s.URType)}}
	case "OperatePrivilege":
		return &msgstream.OperatePrivilegeMsg{BaseMsg: s.baseMsg(), OperatePrivilegeRequest: &milvuspb.OperatePrivilegeRequest{Base: s.base(commonpb.MsgType_OperatePrivilege), Type: milvuspb.OperatePrivilegeType(s.PrivType),
			Entity: &milvuspb.GrantEntity{Role: &milvuspb.RoleEntity{Name: s.Role}, Object: &milvuspb.ObjectEntity{Name: s.Object}, ObjectName: s.ObjName, DbName: s.GrantDB,
				Grantor: &milvuspb.GrantorEntity{User: &milvuspb.UserEntity{Name: s.Grantor}, Privilege: &milvuspb.PrivilegeEntity{Name: s.Privilege}}}}}
	// types the writer's op-message dispatch does not support (used for malformed packs)
	case "CreateCollectionMsg":
		return &msgstream.CreateCollectionMsg{BaseMsg: s.baseMsg(), CreateCollectionRequest: &msgpb.CreateCollectionRequest{Base: s.base(commonpb.MsgType_CreateCollection), DbName: s.DB, CollectionName: s.Coll}}
	case "TimeTickMsg":
		return &msgstream.TimeTickMsg{BaseMsg: s.baseMsg(), TimeTickMsg: &msgpb.TimeTickMsg{Base: s.base(commonpb.MsgType_TimeTick)}}
	case "DropCollectionMsg":
		return &msgstream.DropCollectionMsg{BaseMsg: s.baseMsg(), DropCollectionRequest: &msgpb.DropCollectionRequest{Base: s.base(commonpb.MsgType_DropCollection), DbName: s.DB, CollectionName: s.Coll}}
	}
	panic("buildOpMsg: unknown kind " + s.Kind)
}

const opChannel = "by-dev-replicate-msg"

func posID(id int64) []byte { return []byte(fmt.Sprintf("pos-%08d", id)) }

// buildOpPack wraps messages into the pack the replicate-channel consumer hands to HandleOpMessagePack
// (mq msgstream: position timestamp = message timestamp).
func buildOpPack(ts uint64, id int64, msgs ...msgstream.TsMsg) *msgstream.MsgPack {
	return &msgstream.MsgPack{
		BeginTs: ts, EndTs: ts, Msgs: msgs,
		StartPositions: []*msgpb.MsgPosition{{ChannelName: opChannel, MsgID: posID(id - 1), Timestamp: ts}},
		EndPositions:   []*msgpb.MsgPosition{{ChannelName: opChannel, MsgID: posID(id), Timestamp: ts}},
	}
}

func buildSchema(s *opSpec) *schemapb.CollectionSchema {
	sc := &schemapb.CollectionSchema{Name: s.Coll, Description: s.Desc, AutoID: s.AutoID, EnableDynamicField: s.DynField}
	for i, f := range s.Fields {
		sc.Fields = append(sc.Fields, &schemapb.FieldSchema{
			FieldID: int64(100 + i), Name: f.Name, IsPrimaryKey: f.PK, AutoID: f.AutoID, Description: f.Desc,
			DataType: schemapb.DataType(f.Type), TypeParams: kvs(f.Params), IsDynamic: f.Dynamic, IsPartitionKey: f.PartKey,
			IsClusteringKey: f.ClustKey, ElementType: schemapb.DataType(f.Elem),
		})
	}
	return sc
}

// buildEvent renders an event description the way core/reader builds it (replicate_channel_manager.go).
func buildEvent(s *opSpec) *api.ReplicateAPIEvent {
	ev := &api.ReplicateAPIEvent{
		CollectionInfo: &pb.CollectionInfo{ID: s.ID, Schema: buildSchema(s), CreateTime: s.Ts, ShardsNum: s.Shards,
			ConsistencyLevel: commonpb.ConsistencyLevel(s.Consistency), Properties: kvs(s.Props)},
		ReplicateInfo:  &commonpb.ReplicateInfo{IsReplicate: true, MsgTimestamp: s.Ts},
		ReplicateParam: api.ReplicateParam{Database: s.DB},
		TaskID:         "task-1",
	}
	switch s.Kind {
	case evCreateCollection:
		ev.EventType = api.ReplicateCreateCollection
	case evDropCollection:
		ev.EventType = api.ReplicateDropCollection
		ev.MsgID = api.GetDropCollectionMsgID(s.ID)
	case evCreatePartition:
		ev.EventType = api.ReplicateCreatePartition
		ev.PartitionInfo = &pb.PartitionInfo{PartitionID: s.ID + 1000, PartitionName: s.Parts[0], PartitionCreatedTimestamp: s.Ts, CollectionId: s.ID}
	case evDropPartition:
		ev.EventType = api.ReplicateDropPartition
		ev.PartitionInfo = &pb.PartitionInfo{PartitionID: s.ID + 1000, PartitionName: s.Parts[0], CollectionId: s.ID}
		ev.MsgID = api.GetDropPartitionMsgID(s.ID, s.ID+1000)
	default:
		panic("buildEvent: unknown kind " + s.Kind)
	}
	return ev
}

// deliver hands one operation to the writer through its public entry points.
func deliver(w *writer.ChannelWriter, s *opSpec) ([]byte, error) {
	if isEvent(s.Kind) {
		return nil, w.HandleReplicateAPIEvent(context.Background(), buildEvent(s))
	}
	return w.HandleOpMessagePack(context.Background(), buildOpPack(s.Ts, s.ID, buildOpMsg(s)))
}

// ---- small generator helpers ----

type randSrc struct{ *rand.Rand }

func newRand(seed int64, stream string, idx int) *randSrc {
	return &randSrc{vf.Rand(seed, stream, idx)}
}

var nameAlphabet = []rune("abcXYZ019_-äß漢")

func randName(r *rand.Rand, prefix string) string {
	n := 1 + r.Intn(10)
	var b strings.Builder
	b.WriteString(prefix)
	for i := 0; i < n; i++ {
		b.WriteRune(nameAlphabet[r.Intn(len(nameAlphabet))])
	}
	return b.String()
}

func randKVs(r *rand.Rand, max int) [][2]string {
	n := r.Intn(max + 1)
	var out [][2]string
	for i := 0; i < n; i++ {
		out = append(out, [2]string{fmt.Sprintf("k%d_%s", i, randName(r, "")), randName(r, "v")})
	}
	return out
}

func names(calls []*wfakes.Call) string {
	var s []string
	for _, c := range calls {
		s = append(s, c.Kind)
	}
	return strings.Join(s, ",")
}

func nonProbe(calls []*wfakes.Call) []*wfakes.Call {
	var out []*wfakes.Call
	for _, c := range calls {
		if !wfakes.IsProbe(c.Kind) {
			out = append(out, c)
		}
	}
	return out
}

func probes(calls []*wfakes.Call) []*wfakes.Call {
	var out []*wfakes.Call
	for _, c := range calls {
		if wfakes.IsProbe(c.Kind) {
			out = append(out, c)
		}
	}
	return out
}

func errStr(err error) string {
	if err == nil {
		return "<nil>"
	}
	return err.Error()
}
