package main

// C07 — bytes sent downstream decode to the emitted messages, marked as replicated.
//
// Real code in the loop: ChannelWriter.HandleReplicateMessage -> real replicateMessageManager (one goroutine per
// channel) -> recording DataHandler.ReplicateMessage. Decoder: Milvus' msgstream.ProtoUDFactory dispatcher, the
// message type being read from the serialized commonpb.MsgHeader exactly as a Milvus proxy does on receipt.
//
// Oracle: a deep clone of the pack taken BEFORE the call, with the documented rewrites applied by the reference
// (name mapping by direct table lookup; replicate id => ReplicateInfo{IsReplicate, ReplicateID} on every message,
// TimeTick => Replicate message with the same timestamp), compared with proto.Equal against the decoded bytes.

import (
	"context"
	"encoding/base64"
	"fmt"
	"math"
	"sync"

	"github.com/milvus-io/milvus-proto/go-api/v2/commonpb"
	"github.com/milvus-io/milvus-proto/go-api/v2/msgpb"
	"github.com/milvus-io/milvus-proto/go-api/v2/schemapb"
	"github.com/milvus-io/milvus/pkg/mq/msgstream"
	"google.golang.org/protobuf/proto"

	"verifharness/internal/vf"
	"verifharness/internal/wfakes"
)

type c07Cfg struct {
	ReplicateID string            `json:"replicate_id"`
	Mapping     map[string]string `json:"mapping"`
	Channels    int               `json:"channels"`
}

var c07Types = []string{"Insert", "Delete", "DropCollection", "DropPartition", "Import", "TimeTick"}

func genFieldData(r *randSrc, id int64, rows int) *schemapb.FieldData {
	name := randName(r.Rand, "f")
	sc := func(t schemapb.DataType, s *schemapb.ScalarField) *schemapb.FieldData {
		return &schemapb.FieldData{Type: t, FieldName: name, FieldId: id, Field: &schemapb.FieldData_Scalars{Scalars: s}}
	}
	vec := func(t schemapb.DataType, v *schemapb.VectorField) *schemapb.FieldData {
		return &schemapb.FieldData{Type: t, FieldName: name, FieldId: id, Field: &schemapb.FieldData_Vectors{Vectors: v}}
	}
	dim := 2 + r.Intn(6)
	switch r.Intn(17) {
	case 0:
		d := make([]bool, rows)
		for i := range d {
			d[i] = r.Intn(2) == 0
		}
		return sc(schemapb.DataType_Bool, &schemapb.ScalarField{Data: &schemapb.ScalarField_BoolData{BoolData: &schemapb.BoolArray{Data: d}}})
	case 1, 2:
		d := make([]int32, rows)
		for i := range d {
			d[i] = int32(r.Uint32())
		}
		t := []schemapb.DataType{schemapb.DataType_Int8, schemapb.DataType_Int16, schemapb.DataType_Int32}[r.Intn(3)]
		return sc(t, &schemapb.ScalarField{Data: &schemapb.ScalarField_IntData{IntData: &schemapb.IntArray{Data: d}}})
	case 3:
		d := make([]int64, rows)
		for i := range d {
			d[i] = int64(r.Uint64())
		}
		return sc(schemapb.DataType_Int64, &schemapb.ScalarField{Data: &schemapb.ScalarField_LongData{LongData: &schemapb.LongArray{Data: d}}})
	case 4:
		d := make([]float32, rows)
		for i := range d {
			d[i] = float32(r.NormFloat64())
		}
		if rows > 0 && r.Intn(4) == 0 {
			d[0] = float32(math.Inf(1))
		}
		return sc(schemapb.DataType_Float, &schemapb.ScalarField{Data: &schemapb.ScalarField_FloatData{FloatData: &schemapb.FloatArray{Data: d}}})
	case 5:
		d := make([]float64, rows)
		for i := range d {
			d[i] = r.NormFloat64() * 1e9
		}
		return sc(schemapb.DataType_Double, &schemapb.ScalarField{Data: &schemapb.ScalarField_DoubleData{DoubleData: &schemapb.DoubleArray{Data: d}}})
	case 6, 7:
		d := make([]string, rows)
		for i := range d {
			d[i] = randName(r.Rand, "")
			if r.Intn(5) == 0 {
				d[i] = ""
			}
		}
		return sc(schemapb.DataType_VarChar, &schemapb.ScalarField{Data: &schemapb.ScalarField_StringData{StringData: &schemapb.StringArray{Data: d}}})
	case 8:
		d := make([][]byte, rows)
		for i := range d {
			d[i] = []byte(fmt.Sprintf(`{"k":%d,"s":"%s"}`, r.Intn(1000), randName(r.Rand, "")))
		}
		fd := sc(schemapb.DataType_JSON, &schemapb.ScalarField{Data: &schemapb.ScalarField_JsonData{JsonData: &schemapb.JSONArray{Data: d}}})
		fd.IsDynamic = r.Intn(2) == 0
		return fd
	case 9:
		d := make([]*schemapb.ScalarField, rows)
		for i := range d {
			n := r.Intn(4)
			e := make([]int64, n)
			for j := range e {
				e[j] = int64(r.Intn(100))
			}
			d[i] = &schemapb.ScalarField{Data: &schemapb.ScalarField_LongData{LongData: &schemapb.LongArray{Data: e}}}
		}
		return sc(schemapb.DataType_Array, &schemapb.ScalarField{Data: &schemapb.ScalarField_ArrayData{ArrayData: &schemapb.ArrayArray{Data: d, ElementType: schemapb.DataType_Int64}}})
	case 10:
		d := make([][]byte, rows)
		for i := range d {
			d[i] = randBytes(r, r.Intn(9))
		}
		return sc(schemapb.DataType_String, &schemapb.ScalarField{Data: &schemapb.ScalarField_BytesData{BytesData: &schemapb.BytesArray{Data: d}}})
	case 11, 12:
		d := make([]float32, rows*dim)
		for i := range d {
			d[i] = float32(r.NormFloat64())
		}
		return vec(schemapb.DataType_FloatVector, &schemapb.VectorField{Dim: int64(dim), Data: &schemapb.VectorField_FloatVector{FloatVector: &schemapb.FloatArray{Data: d}}})
	case 13:
		return vec(schemapb.DataType_BinaryVector, &schemapb.VectorField{Dim: int64(dim * 8), Data: &schemapb.VectorField_BinaryVector{BinaryVector: randBytes(r, rows*dim)}})
	case 14:
		if r.Intn(2) == 0 {
			return vec(schemapb.DataType_Float16Vector, &schemapb.VectorField{Dim: int64(dim), Data: &schemapb.VectorField_Float16Vector{Float16Vector: randBytes(r, rows*dim*2)}})
		}
		return vec(schemapb.DataType_BFloat16Vector, &schemapb.VectorField{Dim: int64(dim), Data: &schemapb.VectorField_Bfloat16Vector{Bfloat16Vector: randBytes(r, rows*dim*2)}})
	case 15:
		c := make([][]byte, rows)
		for i := range c {
			c[i] = randBytes(r, 8*r.Intn(4))
		}
		return vec(schemapb.DataType_SparseFloatVector, &schemapb.VectorField{Dim: 0, Data: &schemapb.VectorField_SparseFloatVector{SparseFloatVector: &schemapb.SparseFloatArray{Contents: c, Dim: int64(dim * 100)}}})
	default:
		return vec(schemapb.DataType_Int8Vector, &schemapb.VectorField{Dim: int64(dim), Data: &schemapb.VectorField_Int8Vector{Int8Vector: randBytes(r, rows*dim)}})
	}
}

func randBytes(r *randSrc, n int) []byte {
	b := make([]byte, n)
	for i := range b {
		b[i] = byte(r.Intn(256))
	}
	return b
}

// genDML builds one message of the given type. uid makes ids unique over the whole run.
func genDML(r *randSrc, typ string, uid *int64, ts uint64, db, coll string) msgstream.TsMsg {
	*uid++
	id := *uid
	base := func(t commonpb.MsgType) *commonpb.MsgBase {
		b := &commonpb.MsgBase{MsgType: t, MsgID: id, Timestamp: ts, SourceID: int64(r.Intn(9))}
		switch r.Intn(8) {
		case 0: // a message that already carries (foreign) replicate info
			b.ReplicateInfo = &commonpb.ReplicateInfo{IsReplicate: false, MsgTimestamp: ts - 1}
		case 1:
			b.Properties = map[string]string{"p": randName(r.Rand, "")}
		case 2: // cascaded replication: the message was itself written by a replication with another id
			b.ReplicateInfo = &commonpb.ReplicateInfo{IsReplicate: true, ReplicateID: randName(r.Rand, "upstream-rid-"), MsgTimestamp: ts - 1}
		case 3: // ... or by one that had no id configured
			b.ReplicateInfo = &commonpb.ReplicateInfo{IsReplicate: true, MsgTimestamp: ts - 1}
		}
		return b
	}
	part := randName(r.Rand, "p")
	switch typ {
	case "Insert":
		rows := 0
		if r.Intn(8) != 0 {
			rows = 1 + r.Intn(12)
		}
		req := &msgpb.InsertRequest{Base: base(commonpb.MsgType_Insert), ShardName: fmt.Sprintf("by-dev-dml_%d_%dv0", r.Intn(4), 4000+r.Intn(9)),
			DbName: db, CollectionName: coll, PartitionName: part, DbID: int64(r.Intn(5)), CollectionID: 4000 + int64(r.Intn(9)), PartitionID: 5000 + int64(r.Intn(9)),
			SegmentID: int64(r.Intn(1 << 20)), NumRows: uint64(rows), Version: msgpb.InsertDataVersion_ColumnBased}
		im := &msgstream.InsertMsg{InsertRequest: req}
		bm := &im.BaseMsg
		bm.HashValues = []uint32{uint32(r.Intn(4))}
		for i := 0; i < rows; i++ {
			*uid++
			req.RowIDs = append(req.RowIDs, *uid)
			t := ts - uint64(r.Intn(3))
			req.Timestamps = append(req.Timestamps, t)
			if i == 0 || t < bm.BeginTimestamp {
				bm.BeginTimestamp = t
			}
			if t > bm.EndTimestamp {
				bm.EndTimestamp = t
			}
		}
		if rows == 0 {
			bm.BeginTimestamp, bm.EndTimestamp = ts, ts
		}
		pkd := make([]int64, rows)
		for i := range pkd {
			*uid++
			pkd[i] = *uid
		}
		req.FieldsData = append(req.FieldsData, &schemapb.FieldData{Type: schemapb.DataType_Int64, FieldName: "pk", FieldId: 100,
			Field: &schemapb.FieldData_Scalars{Scalars: &schemapb.ScalarField{Data: &schemapb.ScalarField_LongData{LongData: &schemapb.LongArray{Data: pkd}}}}})
		nf := r.Intn(5)
		for f := 0; f < nf; f++ {
			req.FieldsData = append(req.FieldsData, genFieldData(r, int64(101+f), rows))
		}
		return im
	case "Delete":
		rows := 1 + r.Intn(8)
		req := &msgpb.DeleteRequest{Base: base(commonpb.MsgType_Delete), ShardName: fmt.Sprintf("by-dev-dml_%d_%dv0", r.Intn(4), 4000+r.Intn(9)),
			DbName: db, CollectionName: coll, PartitionName: part, DbID: int64(r.Intn(5)), CollectionID: 4000 + int64(r.Intn(9)), PartitionID: 5000 + int64(r.Intn(9)),
			NumRows: int64(rows), SegmentId: int64(r.Intn(1000))}
		for i := 0; i < rows; i++ {
			req.Timestamps = append(req.Timestamps, ts)
		}
		if r.Intn(2) == 0 {
			d := make([]int64, rows)
			for i := range d {
				*uid++
				d[i] = *uid
			}
			req.PrimaryKeys = &schemapb.IDs{IdField: &schemapb.IDs_IntId{IntId: &schemapb.LongArray{Data: d}}}
		} else {
			d := make([]string, rows)
			for i := range d {
				*uid++
				d[i] = fmt.Sprintf("pk-%d-%s", *uid, randName(r.Rand, ""))
			}
			req.PrimaryKeys = &schemapb.IDs{IdField: &schemapb.IDs_StrId{StrId: &schemapb.StringArray{Data: d}}}
		}
		return &msgstream.DeleteMsg{BaseMsg: msgstream.BaseMsg{BeginTimestamp: ts, EndTimestamp: ts, HashValues: []uint32{0}}, DeleteRequest: req}
	case "DropCollection":
		return &msgstream.DropCollectionMsg{BaseMsg: msgstream.BaseMsg{BeginTimestamp: ts, EndTimestamp: ts, HashValues: []uint32{0}},
			DropCollectionRequest: &msgpb.DropCollectionRequest{Base: base(commonpb.MsgType_DropCollection), DbName: db, CollectionName: coll, DbID: int64(r.Intn(5)), CollectionID: 4000 + int64(r.Intn(9))}}
	case "DropPartition":
		return &msgstream.DropPartitionMsg{BaseMsg: msgstream.BaseMsg{BeginTimestamp: ts, EndTimestamp: ts, HashValues: []uint32{0}},
			DropPartitionRequest: &msgpb.DropPartitionRequest{Base: base(commonpb.MsgType_DropPartition), DbName: db, CollectionName: coll, PartitionName: part, DbID: int64(r.Intn(5)), CollectionID: 4000 + int64(r.Intn(9)), PartitionID: 5000 + int64(r.Intn(9))}}
	case "Import":
		return &msgstream.ImportMsg{BaseMsg: msgstream.BaseMsg{BeginTimestamp: ts, EndTimestamp: ts, HashValues: []uint32{0}},
			ImportMsg: &msgpb.ImportMsg{Base: base(commonpb.MsgType_Import), DbName: db, CollectionName: coll, CollectionID: 4000 + int64(r.Intn(9)),
				PartitionIDs: []int64{5000 + int64(r.Intn(9))}, Options: map[string]string{"timeout": fmt.Sprint(r.Intn(100))},
				Files: []*msgpb.ImportFile{{Id: id, Paths: []string{randName(r.Rand, "/data/"), randName(r.Rand, "/data/")}}}, JobID: id,
				Schema: &schemapb.CollectionSchema{Name: coll, Fields: []*schemapb.FieldSchema{{FieldID: 100, Name: "pk", IsPrimaryKey: true, DataType: schemapb.DataType_Int64}}}}}
	case "TimeTick":
		return &msgstream.TimeTickMsg{BaseMsg: msgstream.BaseMsg{BeginTimestamp: ts, EndTimestamp: ts, HashValues: []uint32{0}},
			TimeTickMsg: &msgpb.TimeTickMsg{Base: &commonpb.MsgBase{MsgType: commonpb.MsgType_TimeTick, MsgID: id, Timestamp: ts, SourceID: int64(r.Intn(9))}}}
	}
	panic("genDML " + typ)
}

// protoOf returns the wire proto of a DML message.
func protoOf(m msgstream.TsMsg) proto.Message {
	switch v := m.(type) {
	case *msgstream.InsertMsg:
		return v.InsertRequest
	case *msgstream.DeleteMsg:
		return v.DeleteRequest
	case *msgstream.DropCollectionMsg:
		return v.DropCollectionRequest
	case *msgstream.DropPartitionMsg:
		return v.DropPartitionRequest
	case *msgstream.ImportMsg:
		return v.ImportMsg
	case *msgstream.TimeTickMsg:
		return v.TimeTickMsg
	case *msgstream.ReplicateMsg:
		return v.ReplicateMsg
	}
	return nil
}

type c07Pack struct {
	Idx       int
	Channel   string
	Types     []string
	Fail      bool
	Empty     bool
	EndID     string
	TargetPos []byte
	pack      *msgstream.MsgPack // handed to the writer
	clone     []proto.Message    // deep clones of the message protos taken before the call
	srcNames  [][2]string        // source (db, collection) per message
	begin     uint64
	end       uint64
	startPos  []*msgpb.MsgPosition
	endPos    []*msgpb.MsgPosition
}

func setNames(m proto.Message, db, coll string) {
	switch v := m.(type) {
	case *msgpb.InsertRequest:
		v.DbName, v.CollectionName = db, coll
	case *msgpb.DeleteRequest:
		v.DbName, v.CollectionName = db, coll
	case *msgpb.DropCollectionRequest:
		v.DbName, v.CollectionName = db, coll
	case *msgpb.DropPartitionRequest:
		v.DbName, v.CollectionName = db, coll
	case *msgpb.ImportMsg:
		v.DbName, v.CollectionName = db, coll
	}
}

func getNames(m proto.Message) (string, string, bool) {
	switch v := m.(type) {
	case *msgpb.InsertRequest:
		return v.DbName, v.CollectionName, true
	case *msgpb.DeleteRequest:
		return v.DbName, v.CollectionName, true
	case *msgpb.DropCollectionRequest:
		return v.DbName, v.CollectionName, true
	case *msgpb.DropPartitionRequest:
		return v.DbName, v.CollectionName, true
	case *msgpb.ImportMsg:
		return v.DbName, v.CollectionName, true
	}
	return "", "", false
}

type baseHolder interface{ GetBase() *commonpb.MsgBase }

func runC07(tier string) *vf.Run {
	run := vf.NewRun("C07", tier, "exploration")
	run.Rule = "case = one configuration (replicate id on/off x mapping none/exact/whole-db x 1-8 concurrent channels) with a fixed number of packs per channel; pack = 1-12 messages over Insert (17 field kinds, 0-12 rows), Delete (int/varchar pks), DropCollection, DropPartition, Import, TimeTick, 1-3 end positions, ~10% planned downstream failures, empty packs; every captured ReplicateMessageParam is decoded with Milvus' dispatcher and compared with the pre-call clone. Non-trivial = a pack whose call reached the downstream; distinct by (replicate id on/off, mapping rule hit, sequence of message types, failing or not)."
	run.Assumptions = []string{
		"the recording DataHandler plays MilvusDataHandler.ReplicateMessage: it stores a base64 target position into the param on success and returns the planned error otherwise",
		"the message type of each serialized message is read from its commonpb.MsgHeader, as the receiving Milvus does, then decoded by msgstream.ProtoUDFactory's dispatcher",
		"calls on one channel are sequential (the contract stated at replicate_message_manager.go:32); different channels run concurrently",
	}
	nCfg := run.Pick(24, 240)
	perChan := run.Pick(24, 60)
	disp := (&msgstream.ProtoUDFactory{}).NewUnmarshalDispatcher()
	var uidMu sync.Mutex
	var uidBase int64

	for ci := 0; ci < nCfg; ci++ {
		r := newRand(run.Seed, "C07cfg", ci)
		cfg := c07Cfg{Channels: 1 + r.Intn(8)}
		if ci%2 == 1 {
			cfg.ReplicateID = randName(r.Rand, "rid-")
		}
		ref := nameMap{}
		switch (ci / 2) % 3 {
		case 1:
			ref["d1.c1"] = "t1.x1"
			ref["default.c2"] = "t2.c2"
		case 2:
			ref["d1.*"] = "t1.*"
			if r.Intn(2) == 0 {
				ref["default.*"] = "t0.*"
			}
		}
		cfg.Mapping = ref
		h := &wfakes.Handler{}
		// plan: which end-position ids fail; expected in-flight pack per channel
		var planMu sync.Mutex
		failIDs := map[string]bool{}
		targetPos := map[string][]byte{}
		h.Decide = func(c *wfakes.Call) error {
			if c.Kind != wfakes.KReplicateMessage {
				return nil
			}
			if n := len(c.RM.End); n > 0 {
				planMu.Lock()
				f := failIDs[string(c.RM.End[n-1].GetMsgID())]
				planMu.Unlock()
				if f {
					return fmt.Errorf("injected downstream failure for %s", c.RM.End[n-1].GetMsgID())
				}
			}
			return nil
		}
		h.TargetPos = func(c *wfakes.Call) string {
			n := len(c.RM.End)
			if n == 0 {
				return ""
			}
			planMu.Lock()
			b := targetPos[string(c.RM.End[n-1].GetMsgID())]
			planMu.Unlock()
			return base64.StdEncoding.EncodeToString(b)
		}
		w, err := newWriter(h, wcfg{ReplicateID: cfg.ReplicateID, Mapping: map[string]string(ref)})
		if err != nil {
			run.Inconclusive(fmt.Sprintf("cfg %d: %v", ci, err))
			continue
		}
		if ci < 2 {
			run.Sample(map[string]any{"config": cfg, "packs_per_channel": perChan})
		}
		// pre-generate packs per channel (fixed function of the seed)
		packs := make([][]*c07Pack, cfg.Channels)
		uidMu.Lock()
		uidBase += 1_000_000
		uid := uidBase
		uidMu.Unlock()
		for ch := 0; ch < cfg.Channels; ch++ {
			chName := fmt.Sprintf("by-dev-rootcoord-dml_%d", ch)
			ts := uint64(1000 + ci*100000)
			for pi := 0; pi < perChan; pi++ {
				pr := newRand(run.Seed, fmt.Sprintf("C07pack/%d/%d", ci, ch), pi)
				p := &c07Pack{Idx: pi, Channel: chName}
				uid++
				nEnd := 1 + pr.Intn(3)
				mp := &msgstream.MsgPack{}
				if pr.Intn(25) == 0 {
					p.Empty = true
				} else {
					nm := 1 + pr.Intn(12)
					for mi := 0; mi < nm; mi++ {
						ts += uint64(1 + pr.Intn(5))
						typ := c07Types[pr.Intn(len(c07Types))]
						if mi == nm-1 && pr.Intn(2) == 0 {
							typ = "TimeTick" // packs normally end with a tick
						}
						db := []string{"", "default", "d1"}[pr.Intn(3)]
						coll := []string{"c1", "c2"}[pr.Intn(2)]
						m := genDML(pr, typ, &uid, ts, db, coll)
						mp.Msgs = append(mp.Msgs, m)
						p.Types = append(p.Types, typ)
						p.clone = append(p.clone, proto.Clone(protoOf(m)))
						p.srcNames = append(p.srcNames, [2]string{db, coll})
					}
				}
				mp.BeginTs, mp.EndTs = ts-uint64(pr.Intn(4)), ts
				for e := 0; e < nEnd; e++ {
					uid++
					mp.StartPositions = append(mp.StartPositions, &msgpb.MsgPosition{ChannelName: chName, MsgID: []byte(fmt.Sprintf("s-%d", uid)), MsgGroup: "g", Timestamp: mp.BeginTs})
					uid++
					mp.EndPositions = append(mp.EndPositions, &msgpb.MsgPosition{ChannelName: chName, MsgID: []byte(fmt.Sprintf("e-%d", uid)), MsgGroup: "g", Timestamp: ts})
				}
				p.EndID = string(mp.EndPositions[nEnd-1].MsgID)
				p.Fail = !p.Empty && pr.Intn(8) == 0
				p.TargetPos = randBytes(pr, 4+pr.Intn(20))
				p.pack, p.begin, p.end = mp, mp.BeginTs, mp.EndTs
				for _, x := range mp.StartPositions {
					p.startPos = append(p.startPos, proto.Clone(x).(*msgpb.MsgPosition))
				}
				for _, x := range mp.EndPositions {
					p.endPos = append(p.endPos, proto.Clone(x).(*msgpb.MsgPosition))
				}
				if p.Fail {
					failIDs[p.EndID] = true
				}
				targetPos[p.EndID] = p.TargetPos
				packs[ch] = append(packs[ch], p)
			}
		}
		// run: one goroutine per channel
		var wg sync.WaitGroup
		for ch := 0; ch < cfg.Channels; ch++ {
			wg.Add(1)
			go func(ch int) {
				defer wg.Done()
				for _, p := range packs[ch] {
					c07One(run, disp, h, w, cfg, ref, ci, p)
				}
			}(ch)
		}
		wg.Wait()
		// nothing but the expected calls reached the downstream
		want := 0
		for ch := range packs {
			for _, p := range packs[ch] {
				if !p.Empty {
					want++
				}
			}
		}
		got := 0
		for _, c := range h.Calls() {
			if c.Kind == wfakes.KReplicateMessage {
				got++
			} else {
				run.Violate("C07/unexpected-downstream-call-kind", fmt.Sprintf("cfg %d: HandleReplicateMessage caused a %s call", ci, c.Kind), map[string]any{"config": cfg})
			}
		}
		if got != want {
			run.Violate("C07/number-of-downstream-calls", fmt.Sprintf("cfg %d: %d non-empty packs handed over, %d ReplicateMessage calls recorded", ci, want, got), map[string]any{"config": cfg})
		}
		if cfg.Channels >= 2 {
			run.Count("configs_with_concurrent_channels", 1)
		}
	}
	for _, t := range c07Types {
		run.Floor("msgs_"+t+"_rid_on", run.Pick(20, 200))
		run.Floor("msgs_"+t+"_rid_off", run.Pick(20, 200))
	}
	run.Floor("failing_calls", run.Pick(100, 1000))
	run.Floor("empty_packs", run.Pick(20, 200))
	run.Floor("packs_with_2plus_end_positions", run.Pick(300, 3000))
	run.Floor("configs_with_concurrent_channels", run.Pick(5, 50))
	run.Floor("msgs_name_mapped_exact", run.Pick(50, 500))
	run.Floor("msgs_name_mapped_whole-db", run.Pick(50, 500))
	return run
}

func c07One(run *vf.Run, disp *msgstream.ProtoUnmarshalDispatcher, h *wfakes.Handler, w interface {
	HandleReplicateMessage(ctx context.Context, channelName string, msgPack *msgstream.MsgPack) ([]byte, []byte, error)
}, cfg c07Cfg, ref nameMap, ci int, p *c07Pack) {
	run.Eval(1)
	replay := map[string]any{"config": cfg, "cfg_index": ci, "channel": p.Channel, "pack_index": p.Idx, "types": p.Types, "fail_planned": p.Fail, "empty": p.Empty}
	bad := func(key, desc string) {
		run.Violate(key, fmt.Sprintf("cfg %d %s pack %d %v: %s", ci, p.Channel, p.Idx, p.Types, desc), replay)
	}
	before := chanCalls(h, p.Channel)
	ckpt, tgt, err := w.HandleReplicateMessage(context.Background(), p.Channel, p.pack)
	after := chanCalls(h, p.Channel)
	newCalls := after[len(before):]
	if p.Empty {
		run.Count("empty_packs", 1)
		if err == nil {
			bad("C07/empty-pack-accepted", "an empty pack returned no error")
		}
		if len(newCalls) != 0 {
			bad("C07/empty-pack-sent-downstream", "an empty pack caused a downstream call")
		}
		return
	}
	if len(newCalls) != 1 {
		bad("C07/calls-per-pack", fmt.Sprintf("%d downstream calls on this channel for one pack (cross-talk or loss)", len(newCalls)))
		return
	}
	c := newCalls[0]
	rid := "off"
	if cfg.ReplicateID != "" {
		rid = "on"
	}
	sig := fmt.Sprintf("rid=%s|fail=%v|", rid, p.Fail)
	// ---- results ----
	if p.Fail {
		run.Count("failing_calls", 1)
		if err == nil {
			bad("C07/downstream-error-swallowed", fmt.Sprintf("the downstream call failed (%s) but HandleReplicateMessage returned success (checkpoint %q)", c.Err, ckpt))
		}
		if err != nil && (ckpt != nil || tgt != nil) {
			bad("C07/positions-returned-with-error", "a checkpoint or target position was returned together with an error")
		}
	} else {
		if err != nil {
			bad("C07/error-without-downstream-failure", "error returned although the downstream call succeeded: "+err.Error())
		} else {
			last := p.endPos[len(p.endPos)-1]
			if string(ckpt) != string(last.MsgID) {
				bad("C07/checkpoint-not-last-end-position", fmt.Sprintf("returned checkpoint %q, the pack's last end position is %q (end positions: %d)", ckpt, last.MsgID, len(p.endPos)))
			}
			if string(tgt) != string(p.TargetPos) {
				bad("C07/target-position-not-decoded-reply", fmt.Sprintf("returned target position %x, downstream replied %x", tgt, p.TargetPos))
			}
		}
	}
	if len(p.endPos) >= 2 {
		run.Count("packs_with_2plus_end_positions", 1)
	}
	// ---- envelope ----
	if !c.Base.GetReplicateInfo().GetIsReplicate() {
		bad("C07/call-not-flagged-as-replication", "param.Base.ReplicateInfo.IsReplicate is not true")
	}
	if c.RM.Channel != p.Channel {
		bad("C07/channel-name-changed", fmt.Sprintf("call carries channel %q", c.RM.Channel))
	}
	if c.RM.BeginTs != p.begin || c.RM.EndTs != p.end {
		bad("C07/begin-end-ts-changed", fmt.Sprintf("call carries begin/end %d/%d, pack has %d/%d", c.RM.BeginTs, c.RM.EndTs, p.begin, p.end))
	}
	if !posEqual(c.RM.Start, p.startPos) {
		bad("C07/start-positions-changed", fmt.Sprintf("call carries %v, pack has %v", c.RM.Start, p.startPos))
	}
	if !posEqual(c.RM.End, p.endPos) {
		bad("C07/end-positions-changed", fmt.Sprintf("call carries %v, pack has %v", c.RM.End, p.endPos))
	}
	// ---- messages ----
	if len(c.RM.MsgsBytes) != len(p.clone) {
		bad("C07/message-count", fmt.Sprintf("%d serialized messages for %d messages in the pack", len(c.RM.MsgsBytes), len(p.clone)))
		return
	}
	for i, b := range c.RM.MsgsBytes {
		typ := p.Types[i]
		sig += typ[:3]
		run.Count("msgs_"+typ+"_rid_"+rid, 1)
		hdr := &commonpb.MsgHeader{}
		if e := proto.Unmarshal(b, hdr); e != nil || hdr.GetBase() == nil {
			bad("C07/undecodable-header", fmt.Sprintf("message %d: header does not decode: %v", i, e))
			continue
		}
		got, e := disp.Unmarshal(b, hdr.GetBase().GetMsgType())
		if e != nil {
			bad("C07/undecodable-message", fmt.Sprintf("message %d (%s): Milvus' decoder fails for type %s: %v", i, typ, hdr.GetBase().GetMsgType(), e))
			continue
		}
		want := proto.Clone(p.clone[i])
		gp := protoOf(got)
		if gp == nil {
			bad("C07/message-type-changed", fmt.Sprintf("message %d: source type %s decodes as %T", i, typ, got))
			continue
		}
		// documented rewrite 1: tick -> replicate-tick with the same timestamp when a replicate id is configured
		if typ == "TimeTick" && cfg.ReplicateID != "" {
			rm, ok := gp.(*msgpb.ReplicateMsg)
			if !ok {
				bad("C07/tick-not-converted-to-replicate-tick", fmt.Sprintf("message %d: with replicate id %q a TimeTick was sent as %s", i, cfg.ReplicateID, hdr.GetBase().GetMsgType()))
				continue
			}
			srcTs := want.(*msgpb.TimeTickMsg).GetBase().GetTimestamp()
			if rm.GetBase().GetTimestamp() != srcTs || got.EndTs() != srcTs || got.BeginTs() != srcTs {
				bad("C07/replicate-tick-timestamp", fmt.Sprintf("message %d: tick at %d became a replicate-tick at %d", i, srcTs, rm.GetBase().GetTimestamp()))
			}
			ri := rm.GetBase().GetReplicateInfo()
			if !ri.GetIsReplicate() || ri.GetReplicateID() != cfg.ReplicateID {
				bad("C07/replicate-id-missing-on-message", fmt.Sprintf("message %d (replicate-tick): ReplicateInfo=%v, configured id %q", i, ri, cfg.ReplicateID))
			}
			continue
		}
		if hdr.GetBase().GetMsgType().String() != typ {
			bad("C07/message-type-changed", fmt.Sprintf("message %d: source type %s was sent as %s", i, typ, hdr.GetBase().GetMsgType()))
			continue
		}
		// documented rewrite 2: replicate info on every message
		gb := gp.(baseHolder).GetBase()
		wb := want.(baseHolder).GetBase()
		if cfg.ReplicateID != "" {
			ri := gb.GetReplicateInfo()
			if !ri.GetIsReplicate() || ri.GetReplicateID() != cfg.ReplicateID {
				bad("C07/replicate-id-missing-on-message", fmt.Sprintf("message %d (%s): ReplicateInfo=%v, configured id %q", i, typ, ri, cfg.ReplicateID))
			} else {
				wb.ReplicateInfo = proto.Clone(ri).(*commonpb.ReplicateInfo)
			}
		}
		// documented rewrite 3: name mapping
		if gdb, gcoll, ok := getNames(gp); ok {
			edb, ecoll, how := ref.ref(p.srcNames[i][0], p.srcNames[i][1])
			if how != "identity" {
				run.Count("msgs_name_mapped_"+how, 1)
			}
			if normDB(gdb) != edb || gcoll != ecoll {
				bad("C07/names-not-mapped/"+typ, fmt.Sprintf("message %d: source %q.%q, mapping %v => expected %s.%s, sent %q.%q", i, p.srcNames[i][0], p.srcNames[i][1], map[string]string(ref), edb, ecoll, gdb, gcoll))
				continue
			}
			setNames(want, gdb, gcoll)
		}
		if !proto.Equal(gp, want) {
			bad("C07/message-content-differs/"+typ, fmt.Sprintf("message %d: decoded message differs from the source beyond the documented rewrites: got %s want %s", i, trunc(fmt.Sprint(gp), 600), trunc(fmt.Sprint(want), 600)))
		}
	}
	run.Nontrivial(sig)
}

func trunc(s string, n int) string {
	if len(s) > n {
		return s[:n] + "…"
	}
	return s
}

func posEqual(a, b []*msgpb.MsgPosition) bool {
	if len(a) != len(b) {
		return false
	}
	for i := range a {
		if !proto.Equal(a[i], b[i]) {
			return false
		}
	}
	return true
}

// chanCalls returns the recorded ReplicateMessage calls that name the channel.
func chanCalls(h *wfakes.Handler, ch string) []*wfakes.Call {
	var out []*wfakes.Call
	for _, c := range h.Calls() {
		if c.Kind == wfakes.KReplicateMessage && c.RM.Channel == ch {
			out = append(out, c)
		}
	}
	return out
}
