package main

// C09 — every downstream operation targets the mapped database and collection.
//
// Real code in the loop: ChannelWriter (HandleOpMessagePack, HandleReplicateAPIEvent, HandleReplicateMessage, the
// readiness probes they trigger) with name mappings installed through UpdateNameMappings, as the server does.
// Reference: direct table lookup (exact entry, else whole-database entry, else unchanged, "" == "default") applied
// to the SOURCE names of the generated operation; compared with the names in the request AND with
// ReplicateParam.Database (what MilvusDataHandler routes by) of every recorded call, probes included.

import (
	"context"
	"fmt"
	"strings"
	"sync"
	"time"

	"github.com/milvus-io/milvus-proto/go-api/v2/commonpb"
	"github.com/milvus-io/milvus-proto/go-api/v2/milvuspb"
	"github.com/milvus-io/milvus-proto/go-api/v2/msgpb"
	"github.com/milvus-io/milvus/pkg/mq/msgstream"
	"google.golang.org/protobuf/proto"

	"github.com/zilliztech/milvus-cdc/core/writer"

	"verifharness/internal/vf"
	"verifharness/internal/wfakes"
)

var c09DML = []string{"Insert", "Delete", "DropCollection", "DropPartition", "Import"}

var c09Shapes = []string{"none", "exact", "whole-db", "unrelated-other-db", "unrelated-same-db", "exact+whole-db", "identity-exact+whole-db"}

// c09Both: shapes with a collection-level AND a whole-database entry for the same source database
func c09Both(shape string) bool { return strings.HasSuffix(shape, "exact+whole-db") }

type c09Cell struct {
	Kind    string            `json:"kind"` // op-message kind, event kind, or "DML:<type>"
	DB      string            `json:"db"`
	Coll    string            `json:"coll"`
	Part    string            `json:"part"`
	Shape   string            `json:"shape"`
	Mapping map[string]string `json:"mapping"`
	Rep     int               `json:"rep"`
}

func c09Mapping(shape, db, coll string, r *randSrc) map[string]string {
	sdb := normDB(db)
	t1, t2, x := randName(r.Rand, "t1"), randName(r.Rand, "t2"), randName(r.Rand, "x")
	switch shape {
	case "exact":
		return map[string]string{sdb + "." + coll: t1 + "." + x}
	case "whole-db":
		return map[string]string{sdb + ".*": t1 + ".*"}
	case "unrelated-other-db":
		return map[string]string{"dz.*": "tz.*", "dy." + coll: "ty." + x}
	case "unrelated-same-db":
		return map[string]string{sdb + ".other_" + coll: t2 + "." + x}
	case "exact+whole-db":
		return map[string]string{sdb + "." + coll: t1 + "." + x, sdb + ".*": t2 + ".*"}
	case "identity-exact+whole-db":
		// one collection pinned in place (mapped to itself) while the rest of its database moves
		return map[string]string{sdb + "." + coll: sdb + "." + coll, sdb + ".*": t2 + ".*"}
	}
	return map[string]string{}
}

type c09Checker struct {
	run   *vf.Run
	cell  c09Cell
	ref   nameMap
	edb   string
	ecoll string
	how   string
	// for the exact+whole-db shape: what the whole-database entry alone would give
	wdb, wcoll string
	calls      string
}

func (k *c09Checker) bad(callKind, field, got, want string) {
	key := fmt.Sprintf("C09/%s/%s", callKind, field)
	if wfakes.IsProbe(callKind) {
		key += "/during-" + k.cell.Kind
	}
	k.run.Violate(key, fmt.Sprintf("%s %q.%q (partition %q), mapping %v (%s): %s call carries %s = %q, the mapping of the source names gives %q [all calls: %s]",
		k.cell.Kind, k.cell.DB, k.cell.Coll, k.cell.Part, k.cell.Mapping, k.how, callKind, field, got, want, k.calls), k.cell)
}

// names checks one (database, collection) pair found in a call. dbField/collField name the fields for the key.
func (k *c09Checker) names(callKind, dbField, gotDB string, dbOptional bool, collField, gotColl string, hasColl bool) {
	dbOK := normDB(gotDB) == k.edb || (dbOptional && gotDB == "")
	collOK := !hasColl || gotColl == k.ecoll
	if dbOK && collOK {
		return
	}
	// the exact+whole-db shape: one defect, one key — a component that carries what the whole-database entry
	// alone would give means the whole-database entry was preferred over the collection-level entry
	order := false
	if c09Both(k.cell.Shape) {
		if !dbOK && normDB(gotDB) == k.wdb && k.wdb != k.edb {
			order, dbOK = true, true
		}
		if !collOK && gotColl == k.wcoll && k.wcoll != k.ecoll {
			order, collOK = true, true
		}
	}
	if order {
		k.run.Count("exact_lost_to_wildcard", 1)
		k.run.Violate("C09/exact-entry-loses-to-whole-database-entry-by-map-order",
			fmt.Sprintf("%s %q.%q, mapping %v: %s call carries %s=%q %s=%q; the collection-level entry gives %s.%s, the whole-database entry (which must only apply when there is no collection-level entry) gives %s.%s [rep %d]",
				k.cell.Kind, k.cell.DB, k.cell.Coll, k.cell.Mapping, callKind, dbField, gotDB, collField, gotColl, k.edb, k.ecoll, k.wdb, k.wcoll, k.cell.Rep), k.cell)
	}
	if !dbOK {
		k.bad(callKind, dbField, gotDB, k.edb)
	}
	if !collOK {
		k.bad(callKind, collField, gotColl, k.ecoll)
	}
}

func (k *c09Checker) check(c *wfakes.Call, disp *msgstream.ProtoUnmarshalDispatcher) {
	switch c.Kind {
	case wfakes.KCreateDatabase, wfakes.KDropDatabase, wfakes.KAlterDatabase:
		var got string
		switch r := c.Req.(type) {
		case *milvuspb.CreateDatabaseRequest:
			got = r.GetDbName()
		case *milvuspb.DropDatabaseRequest:
			got = r.GetDbName()
		case *milvuspb.AlterDatabaseRequest:
			got = r.GetDbName()
		}
		must, unspec := k.ref.refDB(k.cell.DB)
		if normDB(got) == must {
			return
		}
		for _, u := range unspec {
			if got == u {
				// database-level operation, only collection-level entries exist for that database: the
				// statement does not say where the database itself goes
				k.run.Count("unspecified_db_level_op_with_collection_level_entry", 1)
				return
			}
		}
		k.bad(c.Kind, "request-db-name", got, must)
	case wfakes.KDescribeDB:
		k.names(c.Kind, "name", c.Name, false, "", "", false)
	case wfakes.KDescribeColl:
		k.names(c.Kind, "routing-db", c.RouteDB, false, "name", c.Coll, true)
	case wfakes.KDescribePart, wfakes.KCreatePartition, wfakes.KDropPartition:
		k.names(c.Kind, "routing-db", c.RouteDB, false, "collection-name", c.Coll, true)
		if c.Part != k.cell.Part {
			k.bad(c.Kind, "partition-name", c.Part, k.cell.Part)
		}
	case wfakes.KCreateCollection:
		k.names(c.Kind, "routing-db", c.RouteDB, false, "schema-collection-name", c.Coll, true)
	case wfakes.KDropCollection:
		k.names(c.Kind, "routing-db", c.RouteDB, false, "collection-name", c.Coll, true)
	case wfakes.KFlush:
		r := c.Req.(*milvuspb.FlushRequest)
		got := strings.Join(r.GetCollectionNames(), ",")
		k.names(c.Kind, "routing-db", c.RouteDB, false, "collection-names", got, true)
		k.names(c.Kind, "request-db-name", r.GetDbName(), true, "", "", false)
	case wfakes.KCreateIndex, wfakes.KDropIndex, wfakes.KAlterIndex, wfakes.KLoadCollection, wfakes.KReleaseCollection, wfakes.KLoadPartitions, wfakes.KReleasePartitions:
		r := c.Req.(interface {
			GetDbName() string
			GetCollectionName() string
		})
		k.names(c.Kind, "routing-db", c.RouteDB, false, "collection-name", r.GetCollectionName(), true)
		k.names(c.Kind, "request-db-name", r.GetDbName(), true, "", "", false)
	case wfakes.KOperatePrivilege:
		r := c.Req.(*milvuspb.OperatePrivilegeRequest)
		e := r.GetEntity()
		if normDB(e.GetDbName()) != k.edb || e.GetObjectName() != k.ecoll {
			k.run.Violate("C09/OperatePrivilege/grant-db-and-collection-not-mapped",
				fmt.Sprintf("OperatePrivilege on collection %q.%q, mapping %v (%s): the downstream grant names database %q, object %q; the mapping of the source names gives %s.%s",
					k.cell.DB, k.cell.Coll, k.cell.Mapping, k.how, e.GetDbName(), e.GetObjectName(), k.edb, k.ecoll), k.cell)
		}
	case wfakes.KReplicateMessage:
		for i, b := range c.RM.MsgsBytes {
			hdr := &commonpb.MsgHeader{}
			if err := proto.Unmarshal(b, hdr); err != nil {
				continue
			}
			m, err := disp.Unmarshal(b, hdr.GetBase().GetMsgType())
			if err != nil {
				continue
			}
			if gdb, gcoll, ok := getNames(protoOf(m)); ok {
				k.names("ReplicateMessage:"+hdr.GetBase().GetMsgType().String(), "db-name", gdb, false, "collection-name", gcoll, true)
				_ = i
			}
		}
	}
}

func c09Spec(kind, db, coll, part string, ts uint64, id int64) *opSpec {
	s := c08Spec(kind, db, coll, part, ts, id)
	switch kind {
	case "CreateCredential", "DeleteCredential", "UpdateCredential", "OperateUserRole":
		s.User, s.Pwd, s.OldPwd, s.NewPwd, s.Role = "u1", "cHdk", "b2xk", "bmV3", "r1"
	case "CreateRole", "DropRole":
		s.Role = "r1"
	case "OperatePrivilege":
		s.Role, s.Object, s.ObjName, s.Privilege, s.Grantor, s.GrantDB = "r1", "Collection", coll, "Insert", "root", db
	}
	return s
}

func runC09(tier string) *vf.Run {
	run := vf.NewRun("C09", tier, "exploration")
	run.Exhaustive = true
	run.Extra("exhaustive_part", "the (kind x source database x mapping shape) cell table is enumerated completely; name fillings, map iteration orders and the bookkeeping scenarios are sampled")
	run.Rule = "cell = operation kind (18 op-message types, 4 API events, 5 DML message types inside ReplicateMessage; the 3 readiness probes are observed inside them) x source database {\"\", default, d1, d2} x mapping shape {none, exact, whole-db, unrelated (other database), unrelated (same database, other collection), exact+whole-db together}; each cell with several random name fillings; the exact+whole-db shape is repeated 50 times per cell because the mapping table is ranged in random order. Every recorded call of every cell is compared with the reference mapping. Plus bookkeeping scenarios per mapped shape x database: mapped drop of a collection / partition / database, then an older operation on the SOURCE name (must be skipped) and an operation on a source object that merely bears the MAPPED name (must not be skipped); and a drop delivered while the downstream call is in flight under a whole-database mapping (must end as a successful skip). Non-trivial = every cell; distinct by (kind, db, shape)."
	run.Assumptions = []string{
		"the recording handler accepts every call (no downstream catalog) in the cell sweep, so every probe is answered positively and the operation proceeds to its downstream call",
		"a request's own db_name field may be empty when the routing database (ReplicateParam.Database) is set: MilvusDataHandler routes by the latter; database-level and RBAC calls are not routed by database",
		"for a database-level operation when only collection-level entries exist for that database the statement does not say where the database goes: the targets of those entries are tolerated (counted as unspecified_db_level_op_with_collection_level_entry)",
	}
	disp := (&msgstream.ProtoUDFactory{}).NewUnmarshalDispatcher()
	var kinds []string
	kinds = append(kinds, opMsgKinds...)
	kinds = append(kinds, eventKinds...)
	for _, d := range c09DML {
		kinds = append(kinds, "DML:"+d)
	}
	fillings := run.Pick(3, 10)
	bothReps := run.Pick(50, 200)
	var id int64 = 1000
	var uid int64 = 5_000_000
	ci := 0
	for _, kind := range kinds {
		for _, db := range []string{"", "default", "d1", "d2"} {
			for _, shape := range c09Shapes {
				reps := fillings
				if c09Both(shape) {
					reps = bothReps
				}
				for rep := 0; rep < reps; rep++ {
					ci++
					r := newRand(run.Seed, "C09", ci)
					coll, part := randName(r.Rand, "c"), randName(r.Rand, "p")
					id += 3
					cell := c09Cell{Kind: kind, DB: db, Coll: coll, Part: part, Shape: shape, Rep: rep, Mapping: c09Mapping(shape, db, coll, r)}
					c09RunCell(run, disp, cell, id, &uid, r)
				}
			}
		}
	}
	// bookkeeping keyed by source names
	var wg sync.WaitGroup
	sem := make(chan struct{}, 16)
	bi := 0
	for _, db := range []string{"", "default", "d1"} {
		for _, shape := range []string{"exact", "whole-db"} {
			for _, level := range []string{"collection", "partition", "database"} {
				if level == "database" && normDB(db) == "default" {
					continue
				}
				for rep := 0; rep < run.Pick(2, 10); rep++ {
					bi++
					id += 10
					wg.Add(1)
					sem <- struct{}{}
					go func(db, shape, level string, bi int, id int64) {
						defer func() { <-sem; wg.Done() }()
						c09Bookkeeping(run, db, shape, level, bi, id)
					}(db, shape, level, bi, id)
				}
			}
		}
	}
	for _, kind := range []string{evCreatePartition, evDropPartition, "Flush", "CreateIndex", "DropIndex", "LoadCollection", "ReleaseCollection", "LoadPartitions", "ReleasePartitions"} {
		for v := 0; v < run.Pick(2, 6); v++ {
			id += 10
			wg.Add(1)
			sem <- struct{}{}
			go func(kind string, v int, id int64) {
				defer func() { <-sem; wg.Done() }()
				c09ConcurrentDropMapped(run, kind, v, id)
			}(kind, v, id)
		}
	}
	wg.Wait()
	run.Floor("cells", len(kinds)*4*len(c09Shapes))
	run.Floor("probe_cells_DescribeDatabase", 100)
	run.Floor("probe_cells_DescribeCollection", 100)
	run.Floor("probe_cells_DescribePartition", 30)
	run.Floor("bookkeeping_source_name_skips", run.Pick(10, 50))
	run.Floor("bookkeeping_mapped_name_not_skipped", run.Pick(6, 30))
	run.Floor("concurrent_drop_under_mapping", run.Pick(8, 24))
	run.Floor("both_shape_reps", 27*4*run.Pick(50, 200)/2)
	// the reader's half: the lookups of the real reader.TargetClient against a fake Milvus server (c09_target.go)
	runC09Target(run)
	c09MultiFlush(run)
	run.Rule += " PLUS the target-lookup part (counters target_lookup_*): the real reader.TargetClient against a fake Milvus server over gRPC whose four databases all hold collections a, b, c with their own ids and partition ids; GetCollectionInfo and GetPartitionInfo for every source (database, collection) under 11 mapping tables (none, exact, whole database, default database, exact + whole database, chains of databases - also built up by two tasks -, swapped collections, swapped databases, chained exact entries), repeated because the table is ranged in map order; every DescribeCollection / ShowPartitions call observed at the server must be routed to the mapped database and name the mapped collection (mapping applied once), and the returned id, channels and partition ids must be the mapped object's, under the source names."
	run.Assumptions = append(run.Assumptions, "target-lookup part: the routing database is what the fake server reads from the `dbname` gRPC metadata of each call; the reference mapping is exact entry, else whole-database entry, else unchanged, applied once")
	return run
}

func c09RunCell(run *vf.Run, disp *msgstream.ProtoUnmarshalDispatcher, cell c09Cell, id int64, uid *int64, r *randSrc) {
	run.Eval(1)
	run.Distinct("cells", cell.Kind+"|"+cell.DB+"|"+cell.Shape)
	run.Nontrivial(cell.Kind + "|" + cell.DB + "|" + cell.Shape)
	if c09Both(cell.Shape) {
		run.Count("both_shape_reps", 1)
	}
	if cell.Rep == 0 && cell.Kind == "ReleasePartitions" && cell.DB == "d1" && cell.Shape == "whole-db" {
		run.Sample(cell)
	}
	h := &wfakes.Handler{TargetPos: func(*wfakes.Call) string { return "" }}
	w, err := newWriter(h, wcfg{Mapping: cell.Mapping})
	if err != nil {
		run.Inconclusive(err.Error())
		return
	}
	ref := nameMap(cell.Mapping)
	k := &c09Checker{run: run, cell: cell, ref: ref}
	k.edb, k.ecoll, k.how = ref.ref(cell.DB, cell.Coll)
	if c09Both(cell.Shape) {
		wm := nameMap{}
		for s, t := range cell.Mapping {
			if strings.HasSuffix(s, ".*") {
				wm[s] = t
			}
		}
		k.wdb, k.wcoll, _ = wm.ref(cell.DB, cell.Coll)
	}
	var derr error
	if strings.HasPrefix(cell.Kind, "DML:") {
		typ := strings.TrimPrefix(cell.Kind, "DML:")
		ts := uint64(1000 + id)
		m := genDML(r, typ, uid, ts, cell.DB, cell.Coll)
		tick := genDML(r, "TimeTick", uid, ts+1, "", "")
		pack := &msgstream.MsgPack{BeginTs: ts, EndTs: ts + 1, Msgs: []msgstream.TsMsg{m, tick},
			StartPositions: []*msgpb.MsgPosition{{ChannelName: "ch", MsgID: posID(id), Timestamp: ts}},
			EndPositions:   []*msgpb.MsgPosition{{ChannelName: "ch", MsgID: posID(id + 1), Timestamp: ts + 1}}}
		_, _, derr = w.HandleReplicateMessage(context.Background(), "by-dev-rootcoord-dml_0", pack)
	} else {
		_, derr = deliver(w, c09Spec(cell.Kind, cell.DB, cell.Coll, cell.Part, uint64(1000+id), id))
	}
	calls := h.Calls()
	k.calls = names(calls)
	if derr != nil {
		run.Violate("C09/unexpected-error/"+cell.Kind, fmt.Sprintf("%+v: error with an all-accepting downstream: %v", cell, derr), cell)
		return
	}
	main := 0
	for _, c := range calls {
		if wfakes.IsProbe(c.Kind) {
			run.Count("probe_cells_"+c.Kind, 1)
			run.Distinct("probe_kind_db_shape", c.Kind+"|"+cell.DB+"|"+cell.Shape)
		} else {
			main++
		}
		k.check(c, disp)
	}
	if main != 1 {
		run.Violate("C09/calls-per-operation/"+cell.Kind, fmt.Sprintf("%+v: %d non-probe downstream calls [%s]", cell, main, k.calls), cell)
	}
}

// c09Bookkeeping: after a mapped drop, the skip decision for a later (older-stamped) operation on the SOURCE name
// is still taken; a source object that merely bears the mapped name is not affected.
func c09Bookkeeping(run *vf.Run, db, shape, level string, bi int, id int64) {
	run.Eval(1)
	r := newRand(run.Seed, "C09book", bi)
	coll, part := randName(r.Rand, "c"), randName(r.Rand, "p")
	mapping := c09Mapping(shape, db, coll, r)
	ref := nameMap(mapping)
	edb, ecoll, _ := ref.ref(db, coll)
	rep := map[string]any{"db": db, "coll": coll, "part": part, "shape": shape, "level": level, "mapping": mapping}
	h := &wfakes.Handler{}
	w, err := newWriter(h, wcfg{Mapping: mapping})
	if err != nil {
		run.Inconclusive(err.Error())
		return
	}
	run.Nontrivial("bookkeeping|" + level + "|" + shape + "|" + normDB(db))
	var dropSpec, older, onMapped *opSpec
	switch level {
	case "collection":
		dropSpec = c09Spec(evDropCollection, db, coll, part, 200, id)
		older = c09Spec("CreateIndex", db, coll, part, 150, id+1)
		onMapped = c09Spec("CreateIndex", edb, ecoll, part, 150, id+2)
	case "partition":
		dropSpec = c09Spec(evDropPartition, db, coll, part, 200, id)
		older = c09Spec("LoadPartitions", db, coll, part, 150, id+1)
		onMapped = c09Spec("LoadPartitions", edb, ecoll, part, 150, id+2)
	case "database":
		dropSpec = c09Spec("DropDatabase", db, "", "", 200, id)
		older = c09Spec("CreateIndex", db, coll, part, 150, id+1)
		onMapped = c09Spec("CreateIndex", edb, coll, part, 150, id+2)
	}
	if _, err := deliver(w, dropSpec); err != nil {
		run.Violate("C09/bookkeeping/mapped-drop-failed/"+level, fmt.Sprintf("%v: %v", rep, err), rep)
		return
	}
	n := h.Len()
	_, err = deliver(w, older)
	calls := h.Since(n)
	if err != nil || len(calls) != 0 {
		run.Violate("C09/bookkeeping/older-operation-on-source-name-not-skipped-after-mapped-drop/"+level,
			fmt.Sprintf("%s %q.%q/%q dropped at 200 (mapping %v); %s on the same source names stamped 150 must be skipped successfully; got calls [%s] err %s", level, db, coll, part, mapping, older.Kind, names(calls), errStr(err)), rep)
	} else {
		run.Count("bookkeeping_source_name_skips", 1)
	}
	if normDB(edb) == normDB(db) && ecoll == coll {
		return
	}
	if level == "database" && edb == "default" {
		return
	}
	n = h.Len()
	_, err = deliver(w, onMapped)
	calls = h.Since(n)
	if err != nil || len(nonProbe(calls)) != 1 {
		run.Violate("C09/bookkeeping/source-object-bearing-the-mapped-name-affected-by-drop/"+level,
			fmt.Sprintf("%s %q.%q/%q dropped at 200 (mapping %v); %s on the different source object %q.%q must not be skipped; got calls [%s] err %s", level, db, coll, part, mapping, onMapped.Kind, onMapped.DB, onMapped.Coll, names(calls), errStr(err)), rep)
	} else {
		run.Count("bookkeeping_mapped_name_not_skipped", 1)
	}
}

// c09ConcurrentDropMapped: under a whole-database mapping the object is dropped (drop event handled by the same
// writer) while the operation's downstream call is in flight; the call fails; the post-failure decision must be
// taken on the source names, i.e. end as a successful skip.
func c09ConcurrentDropMapped(run *vf.Run, kind string, variant int, id int64) {
	run.Eval(1)
	db, tdb := "d1", "t1"
	mapping := map[string]string{"d1.*": "t1.*"}
	dropPartition := (kind == "LoadPartitions" || kind == "ReleasePartitions") && variant%2 == 1
	cat := wfakes.NewCatalog()
	cat.PutDB(tdb, 1)
	cat.PutColl(tdb, "c1", 5)
	cat.PutPart(tdb, "c1", "p1", 6)
	h := &wfakes.Handler{Catalog: cat}
	var w *writer.ChannelWriter
	var once sync.Once
	var dropErr error
	m := uint64(20)
	h.Decide = func(c *wfakes.Call) error {
		if c.Kind != callKindOf[kind] {
			return nil
		}
		once.Do(func() {
			done := make(chan struct{})
			go func() {
				defer close(done)
				ds := &opSpec{Kind: evDropCollection, DB: db, Coll: "c1", Ts: m + 5, ID: id + 1}
				if dropPartition {
					ds = &opSpec{Kind: evDropPartition, DB: db, Coll: "c1", Parts: []string{"p1"}, Ts: m + 5, ID: id + 1}
				}
				_, dropErr = deliver(w, ds)
			}()
			select {
			case <-done:
			case <-time.After(60 * time.Second):
				dropErr = fmt.Errorf("watchdog: concurrent drop did not finish")
			}
		})
		return nil
	}
	var err error
	w, err = newWriter(h, wcfg{Mapping: mapping})
	if err != nil {
		run.Inconclusive(err.Error())
		return
	}
	_, derr := deliver(w, c08Spec(kind, db, "c1", "p1", m, id))
	calls := h.Calls()
	if dropErr != nil {
		run.Inconclusive(fmt.Sprintf("concurrent drop for %s failed: %v", kind, dropErr))
		return
	}
	failed := false
	for _, c := range calls {
		if c.Kind == callKindOf[kind] && c.Err != "" {
			failed = true
		}
	}
	if !failed {
		return
	}
	run.Count("concurrent_drop_under_mapping", 1)
	run.Nontrivial(fmt.Sprintf("concurrent-drop-mapped|%s|part=%v", kind, dropPartition))
	if derr != nil {
		run.Violate("C09/bookkeeping/"+kind+"-not-skipped-after-drop-during-call-under-mapping",
			fmt.Sprintf("%s on d1.c1/p1 stamped %d, mapping %v: the object was dropped (event stamped %d on the source names, handled by this writer) while the downstream call was in flight and the call failed; the decision after the failure must be taken on the source names and end as a successful skip; returned: %v (calls %s)", kind, m, mapping, m+5, derr, names(calls)),
			map[string]any{"kind": kind, "mapping": mapping, "drop_partition": dropPartition})
	}
}
