package main

import "verifharness/internal/vf"

func runC09(tier string) *vf.Run { return vf.NewRun("C09", tier, "exploration") }
