// writerrig: monitors over the real core/writer.ChannelWriter (C07 bytes sent downstream, C08 incarnation
// gating, C09 name mapping and routing, C20 request identity and replication stamp).
package main

import (
	"flag"
	"fmt"
	"os"

	"github.com/sasha-s/go-deadlock"
	"go.uber.org/zap/zapcore"

	cdclog "github.com/zilliztech/milvus-cdc/core/log"

	"verifharness/internal/vf"
)

func main() {
	prop := flag.String("prop", "", "property id")
	tier := flag.String("tier", "quick", "quick|thorough")
	flag.Parse()
	deadlock.Opts.Disable = true
	// logging configuration only: keep the rig's log bounded (warnings of the code under test stay visible)
	cdclog.SetLevel(zapcore.WarnLevel)
	var run *vf.Run
	switch *prop {
	case "C07":
		run = runC07(*tier)
	case "C08":
		run = runC08(*tier)
	case "C09":
		run = runC09(*tier)
	case "C20":
		run = runC20(*tier)
	default:
		fmt.Fprintln(os.Stderr, "writerrig: unknown property", *prop)
		os.Exit(64)
	}
	vf.CollectRaces(run)
	os.Exit(run.Finish(vf.Out()))
}
