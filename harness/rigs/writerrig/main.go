// writerrig: monitors over the real core/writer.ChannelWriter (C07 bytes sent downstream, C08 incarnation
// gating, C09 name mapping and routing, C20 request identity and replication stamp).
package main

import (
	"flag"
	"fmt"
	"os"

	"github.com/sasha-s/go-deadlock"
	"go.uber.org/zap/zapcore"

	cdclog "github.com/zilliztech/milvus-cdc/core/log"

	"verifharness/internal/vf"
)

func main() {
	prop := flag.String("prop", "", "property id")
	tier := flag.String("tier", "quick", "quick|thorough")
	flag.Parse()
	deadlock.Opts.Disable = true
	// logging configuration only: keep the rig's log bounded (warnings of the code under test stay visible)
	cdclog.SetLevel(zapcore.WarnLevel)
	var run *vf.Run
	switch *prop {
	case "C07":
		run = runC07(*tier)
	case "C08":
		run = runC08(*tier)
	case "C09":
		run = runC09(*tier)
	case "C20":
		run = runC20(*tier)
	default:
		fmt.Fprintln(os.Stderr, "writerrig: unknown property", *prop)
		os.Exit(64)
	}
	vf.CollectRaces(run)
	if p := os.Getenv("VERIF_MERGE_DUMP"); p != "" && *prop == "C20" {
		// the reader half of the event clause (reader rig, profile C20R) ran first and dumped its Run
		if err := run.MergePrefixed(p, "reader_"); err != nil {
			run.Inconclusive("the reader part (reader rig) left no result: " + err.Error())
		}
		run.Floor("reader_create_collection_events", run.Pick(10, 200))
		run.Floor("reader_create_partition_events_of_partitions_created_later_than_their_collection", run.Pick(10, 200))
		run.Rule += " PLUS the reader part (counters reader_*, reader rig profile C20R): the create-collection / create-partition events as the REAL channel manager emits them (StartReadCollection / AddPartition for objects that do not exist downstream yet) must carry the creation time of the collection resp. of the PARTITION and the source names."
	}
	os.Exit(run.Finish(vf.Out()))
}
