package main

// C09, multi-collection flush: one Flush operation may name several collections of one source database, and
// collection-level mapping entries may send them to DIFFERENT downstream databases. A downstream Flush call is routed
// to one database: every collection it names must be a mapped name whose mapped database is the one the call is
// routed to. (Refusing the message, or one call per database, both satisfy that; one call for all of them does not.)

import (
	"fmt"
	"strings"

	"github.com/milvus-io/milvus-proto/go-api/v2/milvuspb"

	"verifharness/internal/vf"
	"verifharness/internal/wfakes"
)

func c09MultiFlush(run *vf.Run) {
	type variant struct {
		name    string
		mapping map[string]string
		colls   []string
	}
	vs := []variant{
		{"two-target-dbs", map[string]string{"srcdb.c1": "tgt1.c1x", "srcdb.c2": "tgt2.c2x"}, []string{"c1", "c2"}},
		{"two-target-dbs-reversed", map[string]string{"srcdb.c1": "tgt1.c1x", "srcdb.c2": "tgt2.c2x"}, []string{"c2", "c1"}},
		{"one-mapped-one-not", map[string]string{"srcdb.c1": "tgt1.c1x"}, []string{"c1", "c2"}},
		{"exact-beside-whole-db", map[string]string{"srcdb.c1": "tgt1.c1x", "srcdb.*": "tgt2.*"}, []string{"c2", "c1", "c3"}},
		{"same-target-db", map[string]string{"srcdb.c1": "tgt1.c1x", "srcdb.c2": "tgt1.c2x"}, []string{"c1", "c2"}},
	}
	for vi, v := range vs {
		for rep := 0; rep < run.Pick(4, 20); rep++ { // the mapping table is ranged in map order
			run.Eval(1)
			h := &wfakes.Handler{TargetPos: func(*wfakes.Call) string { return "" }}
			w, err := newWriter(h, wcfg{Mapping: v.mapping})
			if err != nil {
				run.Inconclusive(err.Error())
				return
			}
			ref := nameMap(v.mapping)
			s := c08Spec("Flush", "srcdb", v.colls[0], "", uint64(5000+vi*100+rep), int64(900000+vi*100+rep))
			s.Colls = append([]string{}, v.colls...)
			_, derr := deliver(w, s)
			run.Count("multi_flush_cases", 1)
			if derr != nil {
				run.Count("multi_flush_refused", 1)
			}
			// mapped name -> mapped database, for the collections of the message
			wantDB := map[string]string{}
			for _, c := range v.colls {
				db, name, _ := ref.ref("srcdb", c)
				wantDB[name] = db
			}
			for _, c := range h.Calls() {
				if c.Kind != wfakes.KFlush {
					continue
				}
				run.Count("multi_flush_calls", 1)
				r := c.Req.(*milvuspb.FlushRequest)
				for _, n := range r.GetCollectionNames() {
					db, ok := wantDB[n]
					if !ok {
						run.Violate("C09/Flush/collection-names", fmt.Sprintf("flush of srcdb.%v under mapping %v: the downstream call names %q, the mapped names are %v", v.colls, v.mapping, n, wantDB), map[string]any{"variant": v.name, "mapping": v.mapping, "collections": v.colls})
						continue
					}
					if normDB(c.RouteDB) != normDB(db) {
						run.Violate("C09/Flush/collection-flushed-in-a-database-it-is-not-mapped-to", fmt.Sprintf("flush of srcdb.%v under mapping %v: one downstream call routed to database %q names %v; collection %q is mapped to database %q (returned error: %v)", v.colls, v.mapping, c.RouteDB, strings.Join(r.GetCollectionNames(), ","), n, db, derr), map[string]any{"variant": v.name, "mapping": v.mapping, "collections": v.colls})
					}
				}
			}
			run.Nontrivial(fmt.Sprintf("multi-flush/%s/%d", v.name, rep%2))
		}
	}
	run.Floor("multi_flush_cases", 5*run.Pick(4, 20))
}
