package main

// C20 — replicated DDL/RBAC requests keep their identity fields and replication stamp.
//
// Real code in the loop: ChannelWriter.HandleOpMessagePack / HandleReplicateAPIEvent with readiness tables seeded
// through droppedObjs (so that partition and collection lists have live and dropped members). Oracle: direct
// comparison of every recorded parameter struct with the generated source operation (opSpec).

import (
	"context"
	"fmt"
	"sort"
	"strings"

	"github.com/milvus-io/milvus-proto/go-api/v2/commonpb"
	"github.com/milvus-io/milvus-proto/go-api/v2/milvuspb"
	"github.com/milvus-io/milvus-proto/go-api/v2/schemapb"
	"github.com/milvus-io/milvus/pkg/mq/msgstream"

	"github.com/zilliztech/milvus-cdc/core/api"
	"github.com/zilliztech/milvus-cdc/core/util"

	"verifharness/internal/vf"
	"verifharness/internal/wfakes"
)

type c20Case struct {
	Idx         int      `json:"case"`
	Spec        opSpec   `json:"op"`
	ReplicateID string   `json:"replicate_id,omitempty"`
	Dropped     []string `json:"dropped_members,omitempty"` // members of Parts / Colls the tables say are dropped
	Unknown     []string `json:"unknown_members,omitempty"` // members the tables know nothing about (probe)
}

var scalarTypes = []schemapb.DataType{schemapb.DataType_Bool, schemapb.DataType_Int8, schemapb.DataType_Int16, schemapb.DataType_Int32, schemapb.DataType_Int64,
	schemapb.DataType_Float, schemapb.DataType_Double, schemapb.DataType_VarChar, schemapb.DataType_JSON, schemapb.DataType_Array,
	schemapb.DataType_FloatVector, schemapb.DataType_BinaryVector, schemapb.DataType_Float16Vector, schemapb.DataType_BFloat16Vector, schemapb.DataType_SparseFloatVector}

func randPwd(r *randSrc) string {
	switch r.Intn(4) {
	case 0:
		return "" // empty
	case 1:
		return "cGFzc3dvcmQ=" // base64
	case 2:
		return randName(r.Rand, "not-base64!%&") // not decodable
	}
	return randName(r.Rand, "") + "=="
}

func genC20(seed int64, kind string, idx int) c20Case {
	r := newRand(seed, "C20/"+kind, idx)
	ts := uint64(1000 + r.Intn(1<<30))
	s := opSpec{Kind: kind, DB: []string{"", "default", "d1"}[r.Intn(3)], Ts: ts, ID: int64(idx*4 + 10)}
	if !isEvent(kind) {
		s.PreStamp = []int{0, 0, 1, 2}[r.Intn(4)]
	}
	c := c20Case{Idx: idx}
	pickMembers := func(prefix string) []string {
		n := 1 + r.Intn(5)
		var out []string
		seen := map[string]bool{}
		for len(out) < n {
			nm := randName(r.Rand, prefix)
			if seen[nm] {
				continue
			}
			seen[nm] = true
			out = append(out, nm)
			switch r.Intn(5) {
			case 0, 1:
				c.Dropped = append(c.Dropped, nm)
			case 2:
				c.Unknown = append(c.Unknown, nm)
			}
		}
		return out
	}
	switch kind {
	case "CreateDatabase", "DropDatabase", "AlterDatabase":
		s.DB = randName(r.Rand, "db")
		s.Props = randKVs(r.Rand, 3)
	case "Flush":
		s.Colls = pickMembers("c")
	case "CreateIndex":
		s.Coll, s.Field, s.Index, s.Extra = randName(r.Rand, "c"), randName(r.Rand, "f"), randName(r.Rand, "idx"), randKVs(r.Rand, 4)
	case "DropIndex":
		s.Coll, s.Field, s.Index = randName(r.Rand, "c"), randName(r.Rand, "f"), randName(r.Rand, "idx")
	case "AlterIndex":
		s.Coll, s.Index, s.Extra = randName(r.Rand, "c"), randName(r.Rand, "idx"), randKVs(r.Rand, 3)
		if r.Intn(2) == 0 {
			s.Extra = append(s.Extra, [2]string{api.IndexKeyMmap, []string{"true", "false"}[r.Intn(2)]})
		}
	case "LoadCollection":
		s.Coll, s.Replica = randName(r.Rand, "c"), int32(r.Intn(5))
		if r.Intn(2) == 0 {
			s.RGs = []string{randName(r.Rand, "rg"), randName(r.Rand, "rg")}
		}
	case "ReleaseCollection":
		s.Coll = randName(r.Rand, "c")
	case "LoadPartitions":
		s.Coll, s.Replica = randName(r.Rand, "c"), int32(r.Intn(5))
		s.Parts = pickMembers("p")
		if r.Intn(2) == 0 {
			s.RGs = []string{randName(r.Rand, "rg")}
		}
	case "ReleasePartitions":
		s.Coll = randName(r.Rand, "c")
		s.Parts = pickMembers("p")
	case "CreateCredential":
		s.User, s.Pwd = randName(r.Rand, "u"), randPwd(r)
	case "DeleteCredential":
		s.User = randName(r.Rand, "u")
	case "UpdateCredential":
		s.User, s.OldPwd, s.NewPwd = randName(r.Rand, "u"), randPwd(r), randPwd(r)
	case "CreateRole", "DropRole":
		s.Role = randName(r.Rand, "role")
	case "OperateUserRole":
		s.User, s.Role, s.URType = randName(r.Rand, "u"), randName(r.Rand, "role"), int32(r.Intn(2))
	case "OperatePrivilege":
		s.Role, s.Object, s.ObjName, s.Privilege, s.Grantor, s.PrivType = randName(r.Rand, "role"), []string{"Collection", "Global", "User"}[r.Intn(3)], []string{"*", randName(r.Rand, "c")}[r.Intn(2)],
			[]string{"Insert", "Search", "CreateIndex", "*"}[r.Intn(4)], randName(r.Rand, "g"), int32(r.Intn(2))
		s.GrantDB = []string{"", "default", "*", "d1"}[r.Intn(4)]
	case evCreateCollection:
		s.Coll, s.Desc, s.AutoID, s.DynField = randName(r.Rand, "c"), randName(r.Rand, "desc "), r.Intn(2) == 0, r.Intn(2) == 0
		s.Shards, s.Consistency = int32(1+r.Intn(8)), int32(r.Intn(5))
		s.Props = randKVs(r.Rand, 3)
		if r.Intn(3) == 0 {
			c.ReplicateID = randName(r.Rand, "rid-")
		}
		s.Fields = append(s.Fields, fieldSpec{Name: "pk", Type: int32([]schemapb.DataType{schemapb.DataType_Int64, schemapb.DataType_VarChar}[r.Intn(2)]), PK: true, AutoID: s.AutoID, Desc: randName(r.Rand, "")})
		if s.Fields[0].Type == int32(schemapb.DataType_VarChar) {
			s.Fields[0].Params = [][2]string{{"max_length", fmt.Sprint(1 + r.Intn(500))}}
		}
		nf := 1 + r.Intn(6)
		for i := 0; i < nf; i++ {
			t := scalarTypes[r.Intn(len(scalarTypes))]
			f := fieldSpec{Name: fmt.Sprintf("f%d_%s", i, randName(r.Rand, "")), Type: int32(t), Desc: randName(r.Rand, "")}
			switch t {
			case schemapb.DataType_VarChar:
				f.Params = [][2]string{{"max_length", fmt.Sprint(1 + r.Intn(65535))}}
				f.PartKey = r.Intn(4) == 0
			case schemapb.DataType_Array:
				f.Elem = int32(schemapb.DataType_Int32)
				f.Params = [][2]string{{"max_capacity", fmt.Sprint(1 + r.Intn(100))}}
			case schemapb.DataType_FloatVector, schemapb.DataType_BinaryVector, schemapb.DataType_Float16Vector, schemapb.DataType_BFloat16Vector:
				f.Params = [][2]string{{"dim", fmt.Sprint(8 * (1 + r.Intn(64)))}}
			case schemapb.DataType_Int64:
				f.ClustKey = r.Intn(6) == 0
			}
			s.Fields = append(s.Fields, f)
		}
		if s.DynField {
			s.Fields = append(s.Fields, fieldSpec{Name: "$meta", Type: int32(schemapb.DataType_JSON), Dynamic: true})
		}
	case evDropCollection:
		s.Coll = randName(r.Rand, "c")
	case evCreatePartition, evDropPartition:
		s.Coll, s.Parts = randName(r.Rand, "c"), []string{randName(r.Rand, "p")}
	}
	c.Spec = s
	return c
}

func c20Seed(c *c20Case) map[string]map[string]uint64 {
	t := map[string]map[string]uint64{util.DroppedDatabaseKey: {}, util.DroppedCollectionKey: {}, util.DroppedPartitionKey: {}}
	s := &c.Spec
	isIn := func(l []string, x string) bool { return inList(l, x) }
	for _, cn := range s.Colls {
		ck, dk := util.GetCollectionInfoKeys(cn, s.DB)
		switch {
		case isIn(c.Dropped, cn):
			t[util.DroppedCollectionKey][dk] = s.Ts + 10
		case isIn(c.Unknown, cn):
		default:
			t[util.DroppedCollectionKey][ck] = 0
		}
	}
	for _, p := range s.Parts {
		if isEvent(s.Kind) {
			break
		}
		ck, dk := util.GetPartitionInfoKeys(p, s.Coll, s.DB)
		switch {
		case isIn(c.Dropped, p):
			t[util.DroppedPartitionKey][dk] = s.Ts + 10
		case isIn(c.Unknown, p):
		default:
			t[util.DroppedPartitionKey][ck] = 0
		}
	}
	return t
}

func kvEq(a []*commonpb.KeyValuePair, b [][2]string) bool {
	if len(a) != len(b) {
		return false
	}
	for i := range a {
		if a[i].GetKey() != b[i][0] || a[i].GetValue() != b[i][1] {
			return false
		}
	}
	return true
}

func kvStr(a []*commonpb.KeyValuePair) string {
	var s []string
	for _, kv := range a {
		s = append(s, kv.GetKey()+"="+kv.GetValue())
	}
	return "[" + strings.Join(s, " ") + "]"
}

func kvMap(a []*commonpb.KeyValuePair) map[string]string {
	m := map[string]string{}
	for _, kv := range a {
		m[kv.GetKey()] = kv.GetValue()
	}
	return m
}

func specMap(a [][2]string) map[string]string {
	m := map[string]string{}
	for _, kv := range a {
		m[kv[0]] = kv[1]
	}
	return m
}

func mapEq(a, b map[string]string) bool {
	if len(a) != len(b) {
		return false
	}
	for k, v := range a {
		if w, ok := b[k]; !ok || w != v {
			return false
		}
	}
	return true
}

func strsEq(a, b []string) bool {
	if len(a) != len(b) {
		return false
	}
	for i := range a {
		if a[i] != b[i] {
			return false
		}
	}
	return true
}

func minus(l, drop []string) []string {
	var out []string
	for _, x := range l {
		if !inList(drop, x) {
			out = append(out, x)
		}
	}
	return out
}

func runC20(tier string) *vf.Run {
	run := vf.NewRun("C20", tier, "exploration")
	run.Rule = "case = one operation of one of the 22 kinds (18 op-message types, 4 API events) with randomly filled identity fields (names over a small alphabet with non-ASCII letters, index extra params, partition / collection lists of 1-5 members each live, dropped or unknown to the readiness tables, replica numbers, resource groups, source messages that already carry the replicate info of an upstream replication or a non-replicate one, user/role/privilege tuples, password strings of 4 encodings, collection schemas of 2-8 fields over 15 data types, shard numbers, consistency levels, properties, replicate id on/off), delivered to a fresh writer whose tables are seeded accordingly; plus, with and without a name mapping, a partition (collection) dropped through a drop EVENT handled by the same writer followed by an older LoadPartitions / ReleasePartitions (Flush) that still lists it; plus malformed packs (no message, two messages of supported kinds, each of several unsupported types). Non-trivial = a case that reached the downstream or was a malformed pack; distinct by (kind, #live/#dropped/#unknown members, replicate id)."
	run.Assumptions = []string{
		"the recording handler accepts every call, so members unknown to the tables are probed, found and kept",
		"op-message packs are built as the replicate-channel consumer builds them: one end position whose timestamp equals the message's timestamp",
		"the user-defined schema is compared on what milvus-sdk-go's entity.Schema can carry (name, description, auto id, dynamic flag; per field: name, primary key, auto id, description, data type, type params, dynamic, partition key, clustering key, element type)",
		"identity fields not named by the statement (database properties, resource groups of LoadPartitions, force-drop flag) are not compared; LoadPartitions requests rebuilt without their resource groups are counted as unspecified_load_partitions_resource_groups_dropped",
	}
	n := run.Pick(300, 3000)
	var kinds []string
	kinds = append(kinds, opMsgKinds...)
	kinds = append(kinds, eventKinds...)
	for _, kind := range kinds {
		for i := 0; i < n; i++ {
			c := genC20(run.Seed, kind, i)
			if i == 0 && (kind == "LoadPartitions" || kind == evCreateCollection) {
				run.Sample(c)
			}
			c20One(run, &c)
		}
	}
	c20Malformed(run)
	c20DropThenList(run)
	for _, k := range kinds {
		run.Floor("kind_"+k, run.Pick(300, 3000)/3)
	}
	run.Floor("lists_with_dropped_members", 50)
	run.Floor("lists_all_dropped", 5)
	run.Floor("lists_with_unknown_members", 50)
	run.Floor("create_collection_with_replicate_id", 10)
	run.Floor("pre_stamped_source_messages", 300)
	run.Floor("drop_event_then_older_list_operation", 30)
	run.Floor("malformed_no_message", 1)
	run.Floor("malformed_two_messages", 10)
	run.Floor("malformed_unsupported_type", 3)
	return run
}

func c20One(run *vf.Run, c *c20Case) {
	run.Eval(1)
	s := &c.Spec
	kind := s.Kind
	h := &wfakes.Handler{}
	w, err := newWriter(h, wcfg{ReplicateID: c.ReplicateID, Dropped: c20Seed(c)})
	if err != nil {
		run.Inconclusive(err.Error())
		return
	}
	bad := func(what, desc string) {
		run.Violate("C20/"+kind+"/"+what, fmt.Sprintf("case %d %s: %s", c.Idx, kind, desc), c)
	}
	spec := *s
	ckpt, derr := deliver(w, &spec)
	calls := h.Calls()
	np := nonProbe(calls)
	members := s.Parts
	if kind == "Flush" {
		members = s.Colls
	}
	live := members
	listKind := kind == "Flush" || kind == "LoadPartitions" || kind == "ReleasePartitions"
	if listKind {
		live = minus(members, c.Dropped)
		if len(c.Dropped) > 0 {
			run.Count("lists_with_dropped_members", 1)
		}
		if len(c.Unknown) > 0 {
			run.Count("lists_with_unknown_members", 1)
		}
	}
	if derr != nil {
		bad("error-without-fault", fmt.Sprintf("returned %v with an all-accepting downstream (calls %s)", derr, names(calls)))
		return
	}
	if listKind && len(live) == 0 {
		run.Count("lists_all_dropped", 1)
		run.Count("kind_"+kind, 1)
		if len(np) != 0 {
			bad("call-although-every-member-dropped", fmt.Sprintf("every member of %v is dropped according to the tables, yet [%s] was called", members, names(np)))
		}
		return
	}
	if len(np) != 1 || np[0].Kind != callKindOf[kind] {
		bad("not-exactly-one-request-of-its-kind", fmt.Sprintf("expected exactly one %s request, got [%s]", callKindOf[kind], names(np)))
		return
	}
	run.Count("kind_"+kind, 1)
	if s.PreStamp != 0 {
		run.Count("pre_stamped_source_messages", 1)
	}
	run.Nontrivial(fmt.Sprintf("%s|%d/%d/%d|rid=%v", kind, len(live), len(c.Dropped), len(c.Unknown), c.ReplicateID != ""))
	call := np[0]
	if !isEvent(kind) && string(ckpt) != string(posID(s.ID)) {
		// not in the statement; recorded only
		run.Count("checkpoint_differs_from_end_position", 1)
	}
	// ---- replication stamp ----
	ri := call.Base.GetReplicateInfo()
	if !ri.GetIsReplicate() {
		bad("not-marked-as-replication", fmt.Sprintf("request Base.ReplicateInfo = %v", ri))
	}
	if ri.GetMsgTimestamp() != s.Ts {
		bad("replication-timestamp", fmt.Sprintf("request carries MsgTimestamp %d, the source operation's timestamp is %d", ri.GetMsgTimestamp(), s.Ts))
	}
	// ---- identity fields ----
	diff := func(field string, got, want any) {
		if fmt.Sprint(got) != fmt.Sprint(want) {
			bad(field, fmt.Sprintf("%s = %q, source has %q", field, fmt.Sprint(got), fmt.Sprint(want)))
		}
	}
	switch r := call.Req.(type) {
	case *milvuspb.CreateDatabaseRequest:
		diff("db-name", r.GetDbName(), s.DB)
	case *milvuspb.DropDatabaseRequest:
		diff("db-name", r.GetDbName(), s.DB)
	case *milvuspb.AlterDatabaseRequest:
		diff("db-name", r.GetDbName(), s.DB)
	case *milvuspb.FlushRequest:
		if !strsEq(r.GetCollectionNames(), live) {
			bad("collection-names", fmt.Sprintf("request names %v; source %v minus dropped %v = %v", r.GetCollectionNames(), s.Colls, c.Dropped, live))
		}
	case *milvuspb.CreateIndexRequest:
		diff("collection-name", r.GetCollectionName(), s.Coll)
		diff("field-name", r.GetFieldName(), s.Field)
		diff("index-name", r.GetIndexName(), s.Index)
		if !kvEq(r.GetExtraParams(), s.Extra) {
			bad("extra-params", fmt.Sprintf("request has %s, source %v", kvStr(r.GetExtraParams()), s.Extra))
		}
	case *milvuspb.DropIndexRequest:
		diff("collection-name", r.GetCollectionName(), s.Coll)
		diff("field-name", r.GetFieldName(), s.Field)
		diff("index-name", r.GetIndexName(), s.Index)
	case *milvuspb.AlterIndexRequest:
		diff("collection-name", r.GetCollectionName(), s.Coll)
		diff("index-name", r.GetIndexName(), s.Index)
		if !kvEq(r.GetExtraParams(), s.Extra) {
			bad("extra-params", fmt.Sprintf("request has %s, source %v", kvStr(r.GetExtraParams()), s.Extra))
		}
	case *milvuspb.LoadCollectionRequest:
		diff("collection-name", r.GetCollectionName(), s.Coll)
		diff("replica-number", r.GetReplicaNumber(), s.Replica)
		if !strsEq(r.GetResourceGroups(), s.RGs) {
			bad("resource-groups", fmt.Sprintf("request has %v, source %v", r.GetResourceGroups(), s.RGs))
		}
	case *milvuspb.ReleaseCollectionRequest:
		diff("collection-name", r.GetCollectionName(), s.Coll)
	case *milvuspb.LoadPartitionsRequest:
		diff("collection-name", r.GetCollectionName(), s.Coll)
		diff("replica-number", r.GetReplicaNumber(), s.Replica)
		if !strsEq(r.GetPartitionNames(), live) {
			bad("partition-names", fmt.Sprintf("request names %v; source %v minus dropped %v = %v", r.GetPartitionNames(), s.Parts, c.Dropped, live))
		}
		if !strsEq(r.GetResourceGroups(), s.RGs) {
			run.Count("unspecified_load_partitions_resource_groups_dropped", 1)
		}
	case *milvuspb.ReleasePartitionsRequest:
		diff("collection-name", r.GetCollectionName(), s.Coll)
		if !strsEq(r.GetPartitionNames(), live) {
			bad("partition-names", fmt.Sprintf("request names %v; source %v minus dropped %v = %v", r.GetPartitionNames(), s.Parts, c.Dropped, live))
		}
	case *milvuspb.CreateCredentialRequest:
		diff("username", r.GetUsername(), s.User)
		diff("password", r.GetPassword(), s.Pwd)
	case *milvuspb.DeleteCredentialRequest:
		diff("username", r.GetUsername(), s.User)
	case *milvuspb.UpdateCredentialRequest:
		diff("username", r.GetUsername(), s.User)
		diff("old-password", r.GetOldPassword(), s.OldPwd)
		diff("new-password", r.GetNewPassword(), s.NewPwd)
	case *milvuspb.CreateRoleRequest:
		diff("role-name", r.GetEntity().GetName(), s.Role)
	case *milvuspb.DropRoleRequest:
		diff("role-name", r.GetRoleName(), s.Role)
	case *milvuspb.OperateUserRoleRequest:
		diff("username", r.GetUsername(), s.User)
		diff("role-name", r.GetRoleName(), s.Role)
		diff("type", int32(r.GetType()), s.URType)
	case *milvuspb.OperatePrivilegeRequest:
		e := r.GetEntity()
		diff("role-name", e.GetRole().GetName(), s.Role)
		diff("object-type", e.GetObject().GetName(), s.Object)
		diff("object-name", e.GetObjectName(), s.ObjName)
		diff("privilege", e.GetGrantor().GetPrivilege().GetName(), s.Privilege)
		diff("grantor", e.GetGrantor().GetUser().GetName(), s.Grantor)
		diff("db-name", e.GetDbName(), s.GrantDB)
		diff("type", int32(r.GetType()), s.PrivType)
	}
	switch kind {
	case evCreateCollection:
		sc := call.Schema
		if sc == nil {
			bad("schema", "no schema in the request")
			break
		}
		diff("schema-collection-name", sc.GetName(), s.Coll)
		diff("schema-description", sc.GetDescription(), s.Desc)
		diff("schema-auto-id", sc.GetAutoID(), s.AutoID)
		diff("schema-dynamic-flag", sc.GetEnableDynamicField(), s.DynField)
		if len(sc.GetFields()) != len(s.Fields) {
			bad("schema-fields", fmt.Sprintf("%d fields in the request, %d in the source schema", len(sc.GetFields()), len(s.Fields)))
		} else {
			for i, f := range sc.GetFields() {
				w := s.Fields[i]
				if f.GetName() != w.Name || f.GetIsPrimaryKey() != w.PK || f.GetAutoID() != w.AutoID || f.GetDescription() != w.Desc || int32(f.GetDataType()) != w.Type ||
					f.GetIsDynamic() != w.Dynamic || f.GetIsPartitionKey() != w.PartKey || f.GetIsClusteringKey() != w.ClustKey || int32(f.GetElementType()) != w.Elem ||
					!mapEq(kvMap(f.GetTypeParams()), specMap(w.Params)) {
					bad("schema-fields", fmt.Sprintf("field %d: request has %v, source %+v", i, f, w))
				}
			}
		}
		diff("shards-num", call.ShardsNum, s.Shards)
		diff("consistency-level", int32(call.Consistency), s.Consistency)
		want := specMap(s.Props)
		if c.ReplicateID != "" {
			run.Count("create_collection_with_replicate_id", 1)
			want["replicate.id"] = c.ReplicateID
		}
		if !mapEq(kvMap(call.Properties), want) || len(call.Properties) != len(want) {
			bad("properties", fmt.Sprintf("request has %s, source %v, replicate id %q", kvStr(call.Properties), s.Props, c.ReplicateID))
		}
	case evDropCollection:
		diff("collection-name", call.Coll, s.Coll)
	case evCreatePartition, evDropPartition:
		diff("collection-name", call.Coll, s.Coll)
		diff("partition-name", call.Part, s.Parts[0])
	}
}

func c20Malformed(run *vf.Run) {
	ctx := context.Background()
	try := func(shape, counter string, pack *msgstream.MsgPack, desc any) {
		run.Eval(1)
		h := &wfakes.Handler{}
		w, err := newWriter(h, wcfg{})
		if err != nil {
			run.Inconclusive(err.Error())
			return
		}
		_, derr := w.HandleOpMessagePack(ctx, pack)
		run.Count(counter, 1)
		run.Nontrivial("malformed|" + shape)
		if derr == nil {
			run.Violate("C20/malformed/"+shape+"/accepted", fmt.Sprintf("a pack with %s (%v) returned no error (calls %s)", shape, desc, names(h.Calls())), desc)
		}
		if h.Len() != 0 {
			run.Violate("C20/malformed/"+shape+"/partially-applied", fmt.Sprintf("a pack with %s (%v) caused downstream calls [%s] (returned %s)", shape, desc, names(h.Calls()), errStr(derr)), desc)
		}
	}
	try("no-message", "malformed_no_message", buildOpPack(100, 7), "no message")
	// two messages: every ordered pair of a sample of supported kinds, identity fields filled
	two := []string{"CreateDatabase", "DropDatabase", "CreateRole", "CreateCredential", "CreateIndex", "LoadCollection", "Flush", "OperatePrivilege"}
	for i, a := range two {
		for j, b := range two {
			ca, cb := genC20(run.Seed, a, 9000+i), genC20(run.Seed, b, 9100+j)
			ca.Spec.Ts, cb.Spec.Ts = 500, 500
			for _, cn := range ca.Spec.Colls {
				_ = cn
			}
			try("two-messages", "malformed_two_messages", buildOpPack(500, int64(20+i*10+j), buildOpMsg(&ca.Spec), buildOpMsg(&cb.Spec)), []string{a, b})
		}
	}
	for i, k := range []string{"CreateCollectionMsg", "TimeTickMsg", "DropCollectionMsg"} {
		s := &opSpec{Kind: k, DB: "d1", Coll: "c1", Ts: 300, ID: int64(40 + i)}
		try("unsupported-type", "malformed_unsupported_type", buildOpPack(300, s.ID, buildOpMsg(s)), k)
	}
	// DML types are not op messages either
	r := newRand(run.Seed, "C20mal", 0)
	var uid int64 = 9_000_000
	for i, k := range []string{"Insert", "Delete", "DropPartition", "Import"} {
		m := genDML(r, k, &uid, 300, "d1", "c1")
		try("unsupported-type", "malformed_unsupported_type", buildOpPack(300, int64(50+i), m), k)
	}
	_ = sort.Strings
}

// c20DropThenList: "partitions already dropped being removed from lists" when the drop was learnt through an EVENT
// handled by this writer (not through the seeded tables), with and without a name mapping: drop-partition event for
// p1 at time T, then LoadPartitions / ReleasePartitions stamped before T that still list p1 next to live
// partitions; likewise a drop-collection event followed by an older Flush. The recording handler answers every probe
// positively, so a member the writer does not find in its tables is kept.
func c20DropThenList(run *vf.Run) {
	mappings := []struct {
		name string
		m    map[string]string
	}{
		{"none", nil},
		{"exact", map[string]string{"d1.c1": "d2.c1x"}},
		{"whole-db", map[string]string{"d1.*": "d2.*"}},
		{"exact-same-db", map[string]string{"d1.c1": "d1.c9"}},
	}
	n := run.Pick(10, 100)
	for _, mp := range mappings {
		for _, kind := range []string{"LoadPartitions", "ReleasePartitions", "Flush"} {
			for i := 0; i < n; i++ {
				r := newRand(run.Seed, "C20/drop-then-list/"+mp.name+"/"+kind, i)
				run.Eval(1)
				T := uint64(5000 + r.Intn(1<<20))
				h := &wfakes.Handler{}
				seed := map[string]map[string]uint64{util.DroppedDatabaseKey: {}, util.DroppedCollectionKey: {}, util.DroppedPartitionKey: {}}
				for _, live := range []string{"p0", "p2"} {
					ck, _ := util.GetPartitionInfoKeys(live, "c1", "d1")
					seed[util.DroppedPartitionKey][ck] = 0
				}
				for _, live := range []string{"c0", "c2"} {
					ck, _ := util.GetCollectionInfoKeys(live, "d1")
					seed[util.DroppedCollectionKey][ck] = 0
				}
				w, err := newWriter(h, wcfg{Mapping: mp.m, Dropped: seed})
				if err != nil {
					run.Inconclusive(err.Error())
					return
				}
				bad := func(what, desc string) {
					run.Violate("C20/"+kind+"/"+what, fmt.Sprintf("[drop event then older list operation, mapping %s %v] %s", mp.name, mp.m, desc), map[string]any{"mapping": mp.m, "kind": kind, "drop_ts": T})
				}
				var op opSpec
				if kind == "Flush" {
					ev := opSpec{Kind: evDropCollection, DB: "d1", Coll: "c1", Ts: T, ID: 4000 + int64(i)}
					if _, err := deliver(w, &ev); err != nil {
						bad("error-without-fault", "drop-collection event: "+err.Error())
						continue
					}
					op = opSpec{Kind: "Flush", DB: "d1", Colls: []string{"c0", "c1", "c2"}, Ts: T - uint64(1+r.Intn(1000)), ID: 5000 + int64(i)}
				} else {
					ev := opSpec{Kind: evDropPartition, DB: "d1", Coll: "c1", Parts: []string{"p1"}, Ts: T, ID: 4000 + int64(i)}
					if _, err := deliver(w, &ev); err != nil {
						bad("error-without-fault", "drop-partition event: "+err.Error())
						continue
					}
					op = opSpec{Kind: kind, DB: "d1", Coll: "c1", Parts: []string{"p0", "p1", "p2"}, Ts: T - uint64(1+r.Intn(1000)), ID: 5000 + int64(i)}
				}
				before := len(h.Calls())
				if _, err := deliver(w, &op); err != nil {
					bad("error-without-fault", fmt.Sprintf("%s stamped %d after the drop event stamped %d: %v", kind, op.Ts, T, err))
					continue
				}
				np := nonProbe(h.Calls()[before:])
				if len(np) != 1 || np[0].Kind != callKindOf[kind] {
					bad("not-exactly-one-request-of-its-kind", fmt.Sprintf("expected exactly one %s request, got [%s]", callKindOf[kind], names(np)))
					continue
				}
				run.Count("drop_event_then_older_list_operation", 1)
				run.Nontrivial("drop-then-list|" + mp.name + "|" + kind)
				switch q := np[0].Req.(type) {
				case *milvuspb.LoadPartitionsRequest:
					if !strsEq(q.GetPartitionNames(), []string{"p0", "p2"}) {
						bad("partition-names", fmt.Sprintf("p1 was dropped by an event stamped %d handled by this writer; LoadPartitions stamped %d names %v, expected [p0 p2]", T, op.Ts, q.GetPartitionNames()))
					}
				case *milvuspb.ReleasePartitionsRequest:
					if !strsEq(q.GetPartitionNames(), []string{"p0", "p2"}) {
						bad("partition-names", fmt.Sprintf("p1 was dropped by an event stamped %d handled by this writer; ReleasePartitions stamped %d names %v, expected [p0 p2]", T, op.Ts, q.GetPartitionNames()))
					}
				case *milvuspb.FlushRequest:
					if !strsEq(q.GetCollectionNames(), []string{"c0", "c2"}) {
						bad("collection-names", fmt.Sprintf("c1 was dropped by an event stamped %d handled by this writer; Flush stamped %d names %v, expected [c0 c2]", T, op.Ts, q.GetCollectionNames()))
					}
				}
			}
		}
	}
}
