package main

import "verifharness/internal/vf"

func runC20(tier string) *vf.Run { return vf.NewRun("C20", tier, "exploration") }
