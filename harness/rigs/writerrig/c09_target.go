package main

// C09, target-lookup part: the reader's half of "every downstream operation targets the mapped database and
// collection". Before a collection is replicated the service asks the downstream for its id, channels and partition
// ids through reader.TargetClient (DescribeCollection + ShowPartitions over gRPC, one sdk client per routing
// database), which applies the task's name mapping itself. The real TargetClient is run against the fake Milvus
// server; every gRPC call it makes is observed at the server (routing database from the `dbname` metadata, collection
// name from the request) and compared with the reference mapping applied ONCE to the source names; the returned
// ids / channels / partition ids are compared with the fake's catalog entry of the mapped object, and the returned
// names must be the SOURCE names (bookkeeping keyed by source names).
//
// The downstream catalog has a same-named collection in every database (different ids and partition ids), so a
// lookup that lands in the wrong database or collection is answered successfully with the wrong object's data.

import (
	"context"
	"fmt"
	"sort"
	"strings"
	"time"

	"github.com/milvus-io/milvus-proto/go-api/v2/milvuspb"

	"github.com/zilliztech/milvus-cdc/core/reader"

	"verifharness/internal/fakemilvus"
	"verifharness/internal/vf"
)

var c09TargetShapes = []struct {
	name string
	m    []nameMap // one entry per UpdateNameMappings call (the tasks of a target share one client and add theirs)
}{
	{"none", nil},
	{"exact", []nameMap{{"d1.a": "d2.b"}}},
	{"exact-same-db", []nameMap{{"d1.a": "d1.c"}}},
	{"whole-db", []nameMap{{"d1.*": "d2.*"}}},
	{"default-db", []nameMap{{"default.*": "d3.*"}}},
	{"exact+whole-db", []nameMap{{"d1.a": "d3.c", "d1.*": "d2.*"}}},
	{"chain-of-databases", []nameMap{{"d1.*": "d2.*", "d2.*": "d3.*"}}},
	{"chain-over-two-tasks", []nameMap{{"d1.*": "d2.*"}, {"d2.*": "d3.*"}}},
	{"swap-of-collections", []nameMap{{"d1.a": "d1.b", "d1.b": "d1.a"}}},
	{"swap-of-databases", []nameMap{{"d1.*": "d2.*", "d2.*": "d1.*"}}},
	{"exact-chain", []nameMap{{"d1.a": "d2.b"}, {"d2.b": "d3.c"}}},
}

func runC09Target(run *vf.Run) {
	srv, err := fakemilvus.Start()
	if err != nil {
		run.Inconclusive("target-lookup part: fake downstream: " + err.Error())
		return
	}
	defer srv.Stop()
	dbs := []string{"default", "d1", "d2", "d3"}
	colls := []string{"a", "b", "c"}
	for _, db := range dbs {
		if db != "default" {
			if err := srv.AddDatabase(db); err != nil {
				run.Inconclusive("target-lookup part: add database: " + err.Error())
				return
			}
		}
		for _, cn := range colls {
			if _, err := srv.AddCollection(fakemilvus.CollectionSpec{DB: db, Name: cn, ShardsNum: int32(1 + len(cn+db)%3), Partitions: map[string]int64{"p1": 0, "p2": 0}}); err != nil {
				run.Inconclusive("target-lookup part: add collection: " + err.Error())
				return
			}
		}
	}
	ctx, cancel := context.WithTimeout(context.Background(), 5*time.Minute)
	defer cancel()
	reps := run.Pick(2, 12) // the mapping table is ranged in map order: repeat
	for _, shape := range c09TargetShapes {
		ref := nameMap{}
		for _, m := range shape.m {
			for k, v := range m {
				ref[k] = v
			}
		}
		for rep := 0; rep < reps; rep++ {
			tapi, err := reader.NewTarget(ctx, reader.TargetConfig{URI: srv.URI(), Token: "root:Milvus"})
			if err != nil {
				run.Inconclusive("target-lookup part: new target: " + err.Error())
				return
			}
			tc, ok := tapi.(*reader.TargetClient)
			if !ok {
				run.Inconclusive("target-lookup part: NewTarget does not return a *TargetClient")
				return
			}
			for _, m := range shape.m {
				tc.UpdateNameMappings(map[string]string(m))
			}
			for _, db := range []string{"", "default", "d1", "d2", "d3"} {
				for _, cn := range colls {
					for _, api := range []string{"GetCollectionInfo", "GetPartitionInfo"} {
						run.Eval(1)
						edb, ecoll, how := ref.ref(db, cn)
						sig := fmt.Sprintf("target/%s/%s/%s/%s", api, shape.name, normDB(db), how)
						bad := func(k, d string) {
							run.Violate("C09/target-lookup/"+k, fmt.Sprintf("[%s, mapping %v, source %q.%q -> expected %s.%s (%s)] %s", api, shape.m, db, cn, edb, ecoll, how, d), map[string]any{"api": api, "mapping": shape.m, "source_db": db, "source_collection": cn})
						}
						from := len(srv.Calls())
						var gotID int64
						var gotV, gotP []string
						var gotParts map[string]int64
						var gotDB, gotName string
						if api == "GetCollectionInfo" {
							info, err := tc.GetCollectionInfo(ctx, cn, db)
							if err != nil {
								bad("lookup-failed", "error: "+err.Error())
								continue
							}
							gotID, gotV, gotP, gotParts, gotDB, gotName = info.CollectionID, info.VChannels, info.PChannels, info.Partitions, info.DatabaseName, info.CollectionName
						} else {
							info, err := tc.GetPartitionInfo(ctx, cn, db)
							if err != nil {
								bad("lookup-failed", "error: "+err.Error())
								continue
							}
							gotParts = info.Partitions
						}
						// (1) every call observed at the downstream names the mapped object
						calls := srv.Calls()[from:]
						n := 0
						for _, c := range calls {
							var reqColl string
							switch r := c.Req.(type) {
							case *milvuspb.DescribeCollectionRequest:
								reqColl = r.GetCollectionName()
							case *milvuspb.ShowPartitionsRequest:
								reqColl = r.GetCollectionName()
							default:
								continue
							}
							n++
							if c.RouteDB() != edb {
								bad(c.Method+"/routing-db", fmt.Sprintf("%s was routed to database %q", c.Method, c.RouteDB()))
							}
							if reqColl != ecoll {
								bad(c.Method+"/collection-name", fmt.Sprintf("%s names collection %q", c.Method, reqColl))
							}
						}
						run.Count("target_lookup_calls_observed", n)
						// (2) what comes back is the mapped object's data under the source names
						want := srv.GetCollection(edb, ecoll)
						if want == nil {
							run.Inconclusive("target-lookup part: the fake has no " + edb + "." + ecoll)
							continue
						}
						if api == "GetCollectionInfo" {
							if gotID != want.ID || strings.Join(gotV, ",") != strings.Join(want.VChannels, ",") || strings.Join(gotP, ",") != strings.Join(want.PChannels, ",") {
								bad("collection-of-another-object", fmt.Sprintf("returned id %d channels %v, the mapped object has id %d channels %v", gotID, gotV, want.ID, want.VChannels))
							}
							if gotName != cn || normDB(gotDB) != normDB(db) {
								bad("returned-names-not-source-names", fmt.Sprintf("returned names %q.%q", gotDB, gotName))
							}
						}
						if fmt.Sprint(sortedParts(gotParts)) != fmt.Sprint(sortedParts(want.Partitions)) {
							bad("partition-ids-of-another-object", fmt.Sprintf("returned partitions %v, the mapped object has %v", sortedParts(gotParts), sortedParts(want.Partitions)))
						}
						run.Nontrivial(sig)
						if how != "identity" {
							run.Count("target_lookups_mapped_"+how, 1)
						}
					}
				}
			}
		}
		run.Distinct("target_lookup_mapping_shapes", shape.name)
	}
	run.Floor("target_lookup_calls_observed", 200)
	run.Floor("target_lookup_mapping_shapes", len(c09TargetShapes))
}

func sortedParts(m map[string]int64) []string {
	var out []string
	for k, v := range m {
		out = append(out, fmt.Sprintf("%s=%d", k, v))
	}
	sort.Strings(out)
	return out
}
