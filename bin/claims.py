NOT_CLAIMED = {}
CLAIMS["C14"] = dict(category="exploration",
  technique="runtime conservation monitor over the real Packer/MemoryProtector (callback log vs hand-in log, global counter at barriers), race detector on",
  text="Held on every generated history of this run: exactly-once/in-order delivery per packer, error propagation, bounded buffer and global-counter conservation, for 1-4 packers on their own goroutines sharing the process-global budget, one child process per memory-limit configuration. Sampled, not exhaustive; the right level because the property quantifies over unbounded size sequences and configurations.",
  note="trusts TsMsg.Size() as the packer's own size measure; the age trigger is wall-clock and only exercised, not asserted; hook H4 reads the counter under the protector's own lock")
CLAIMS["C16"] = dict(category="exploration",
  technique="runtime invariant monitor on util.ChannelMapping driven by the manager's assign/wait/forward protocol, whole assignment read back after every step",
  text="All 64 count pairs (1..8 x 1..8) with seeded offer orders and all permutations of up to 4 pairs: function-ness, stability, load bound ceil(larger/smaller), injectivity for equal counts, observed through the public predicates after every step.",
  note="the wait/forward bookkeeping (channelForwardMap) is mirrored by the harness from replicateChannelManager; the real manager with unequal counts is exercised separately in the reader rig")
CLAIMS["C17"] = dict(category="exploration",
  technique="reference-union monitor comparing memory view, store content and model after every call of the real ReplicateMeteImpl; crash-in-update and reload; concurrent reporters under the race detector",
  text="Held on every generated history of this run (reports in any order with duplicates, removals, reloads, crashes inside an update, concurrent reporters) over 1-3 tasks x 1-4 messages of both kinds; the check found and now guards the repaired merge/removal defect (fix commit 621c2cc).",
  note="in-memory api.ReplicateStore with etcd-store semantics (JSON per key, prefix scan) is trusted; store error returns are outside the property's quantifier and not injected")
_reader_note = "fake msgdispatcher / TargetAPI / MetaOp and the rig's consumers are the trusted base (DESIGN 2.2); hooks H1/H2 (tag verif) give logical quiescence and the computed-order log; results hold for the executions observed"
CLAIMS["C01"] = dict(category="exploration",
  technique="offline set/sequence checker over feed and emission logs of the real channel manager (unique message ids, payload clones), race detector on, seeded presend delays",
  text="Every generated catalog/script/registration interleaving of this run reached logical quiescence and the emitted stream per source shard equalled the fed stream (no loss, no duplicate, no foreign or filtered-type message, source order with delete-first ties, payload equal modulo the rewritten fields, labels and per-stream pack order). Sampled executions under the race detector; right level because the property quantifies over inputs and schedules.",
  note=_reader_note)
CLAIMS["C02"] = dict(category="exploration",
  technique="direct comparison of every emitted message / pack against the generated downstream catalog (ids, vchannel pairing as a bijection, output channel, positions) over the same executions as C01",
  text="Held on all observed executions including differently placed downstream shards (forwarded packs), collections created by event, and partition ids learned lazily.",
  note=_reader_note + "; the pairing of source and downstream vchannels is required to be a consistent bijection onto the collection's downstream vchannels (the statement does not prescribe which one)")
CLAIMS["C03"] = dict(category="exploration",
  technique="per-channel clock predicate evaluated in computed order (hook inside the channel lock) and in dequeue order; yield-point scheduler realising compute/enqueue inversions; skewed stream clocks",
  text="Clock logic held in computed order on all observed executions after the repaired tick defect (fix aac0fad); in dequeue order the only violations observed are the compute-to-enqueue reordering, reported as KNOWN-FINDING (not repaired). Any violation not explained by that reordering exits 1.",
  note=_reader_note + "; resume clause checked here only against seek positions, real restart resume belongs to the system rig")
CLAIMS["C04"] = dict(category="exploration",
  technique="event-position checker over imposed shard delivery orders (all S! for S<=4 cycled), AddPartition racing stream registration, mid-run stops and dropped-while-down restarts",
  text="Held on all observed executions after two repairs found by this check (partition barrier sized before all shards registered: ffb6c22; nil pack crash: 6537f4c): one drop request per object, right names, never before the drop was handed to every shard, nothing read-and-emitted afterwards, no drop from a stop.",
  note=_reader_note + "; a missing drop event is judged after logical quiescence plus a 30 s idle watchdog (the only wall-clock element; 'too early' and 'twice' are purely logical)")
_writer_note = "recording api.DataHandler with a downstream catalog model and an in-memory ReplicateStore are the trusted base; Milvus' own UnmarshalDispatcher is the decoder; retry back-offs are whole seconds so error paths are sampled more thinly"
CLAIMS["C07"] = dict(category="exploration",
  technique="decode-and-compare monitor: every captured ReplicateMessageParam is decoded with Milvus' decoder and compared (proto.Equal) with a clone of the pack taken before the call; concurrent channels under the race detector",
  text="Held for every generated pack of this run (all supported message types x replicate id on/off x mapping shapes x 1-8 concurrent channels x injected downstream failures x empty packs).", note=_writer_note)
CLAIMS["C08"] = dict(category="exploration",
  technique="exhaustive order-type sweep of the readiness decision (hook H6 and public behaviour, 156 cells) plus generated create/drop/re-create histories with rewinds and restarts against a recording downstream catalog",
  text="Part A (finite) enumerated completely and held; part B histories: the violations observed on this tree are five recorded known findings (drop events / database ops not gated by the tables, probe order) and one repaired defect (AlterIndex re-check, c9b9716); anything else exits 1.", note=_writer_note + "; cells the statement leaves open (create time = drop time, replay of an object's own create/drop) are counted as unspecified, not judged")
CLAIMS["C09"] = dict(category="exploration",
  technique="reference-mapping monitor: every op kind x source database x mapping shape (648 cells), every captured param's name fields and routing database compared with the mapping applied to the source names; map-order repetitions",
  text="All cells visited; five routing/mapping defects found by this check were repaired (f65599f, 7fcecc4, mapping precedence, partition events, database probe); the unmapped grant entity of OperatePrivilege is a recorded known finding.", note=_writer_note)
CLAIMS["C20"] = dict(category="exploration",
  technique="deep comparison of every captured DDL/RBAC param with the source message or event (22 kinds x generated field fillings) and zero-call check for malformed packs",
  text="Held for every generated filling of every kind and every malformed pack shape of this run.", note=_writer_note)
CLAIMS["C12"] = dict(category="fault_enumeration",
  technique="full-backend dump diff against the operation's footprint on embedded etcd and on a MySQL-semantics database/sql engine (fakesql), reads against a reference map, a fault injected at every store/driver call of DeleteTask",
  text="Every operation of every generated sequence changed/returned only records inside its footprint and DeleteTask was all-or-nothing at every injected fault point, on both backends, after four repairs found by this check (MySQL delete scoping, LIKE escaping, replicate prefix, etcd replicate root). Nested root paths and task ids containing '/' on etcd are recorded known findings.",
  note="fakesql implements exactly the statements the store issues with MySQL's documented LIKE / ON DUPLICATE KEY / transaction semantics and case-sensitive '=' (self-tested at start-up); embedded etcd v3.5.5 is the real thing")
_cat_note = "the catalog writer is the rig's rendering of rootcoord's etcd layout as parsed by etcd_op.go and used in the repo's tests; embedded etcd is real; quiescence is logical (watch pool idle + sentinel object reported)"
CLAIMS["C13"] = dict(category="exploration",
  technique="catalog writes injected at each of the 9 subscribe/watch/list/start-watch step boundaries of the real EtcdOp + CollectionReader; recording ChannelManager compared with the expected-started set",
  text="Held at every boundary x write kind of this run after two repairs found by this check (lookup without break: dfe9867; default-partition name match: 52443db).", note=_cat_note)
CLAIMS["C15"] = dict(category="exploration",
  technique="reference table computed by set logic from the generated catalog compared with the real GetAllDroppedObj() on embedded etcd, with a fake target and with a nil target",
  text="Held on all generated catalogs after the stale-database repair (af7f444); two recorded known findings remain (database horizon vs live namesake, non-injective name keys).", note=_cat_note)
