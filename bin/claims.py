NOT_CLAIMED = {}
CLAIMS["C14"] = dict(category="exploration",
  technique="runtime conservation monitor over the real Packer/MemoryProtector (callback log vs hand-in log, global counter at barriers), race detector on",
  text="Held on every generated history of this run: exactly-once/in-order delivery per packer, error propagation, bounded buffer and global-counter conservation, for 1-4 packers on their own goroutines sharing the process-global budget, one child process per memory-limit configuration. Sampled, not exhaustive; the right level because the property quantifies over unbounded size sequences and configurations.",
  note="trusts TsMsg.Size() as the packer's own size measure; the age trigger is wall-clock and only exercised, not asserted; hook H4 reads the counter under the protector's own lock")
CLAIMS["C16"] = dict(category="exploration",
  technique="runtime invariant monitor on util.ChannelMapping driven by the manager's assign/wait/forward protocol, whole assignment read back after every step",
  text="All 64 count pairs (1..8 x 1..8) with seeded offer orders and all permutations of up to 4 pairs: function-ness, stability, load bound ceil(larger/smaller), injectivity for equal counts, observed through the public predicates after every step.",
  note="the wait/forward bookkeeping (channelForwardMap) is mirrored by the harness from replicateChannelManager; the real manager with unequal counts is exercised separately in the reader rig")
CLAIMS["C17"] = dict(category="exploration",
  technique="reference-union monitor comparing memory view, store content and model after every call of the real ReplicateMeteImpl; crash-in-update and reload; concurrent reporters under the race detector",
  text="Held on every generated history of this run (reports in any order with duplicates, removals, reloads, crashes inside an update, concurrent reporters) over 1-3 tasks x 1-4 messages of both kinds; the check found and now guards the repaired merge/removal defect (fix commit 621c2cc).",
  note="in-memory api.ReplicateStore with etcd-store semantics (JSON per key, prefix scan) is trusted; store error returns are outside the property's quantifier and not injected")
