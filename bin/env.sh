export GOFLAGS=-mod=mod GOPROXY=off GOSUMDB=off GOTOOLCHAIN=local CGO_ENABLED=1
export VERIF_ROOT="$(cd "$(dirname "${BASH_SOURCE[0]}")/.." && pwd)"
mkdir -p "$VERIF_ROOT/.build" "$VERIF_ROOT/.scratch" "$VERIF_ROOT/evidence" "$VERIF_ROOT/replays"
# build_rig <name>: rebuilds the rig binary from /repo's current working tree, hooks on, race detector on
build_rig() {
  ( cd "$VERIF_ROOT/harness" && go build -race -tags verif -o "$VERIF_ROOT/.build/$1" "./rigs/$1" ) && echo "$VERIF_ROOT/.build/$1"
}
