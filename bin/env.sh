export GOFLAGS=-mod=mod GOPROXY=off GOSUMDB=off GOTOOLCHAIN=local CGO_ENABLED=1
export VERIF_ROOT="$(cd "$(dirname "${BASH_SOURCE[0]}")/.." && pwd)"
mkdir -p "$VERIF_ROOT/.build" "$VERIF_ROOT/.scratch" "$VERIF_ROOT/evidence" "$VERIF_ROOT/replays"
# build_rig <name>: rebuilds the rig binary from the repository's current working tree, hooks on (-tags verif),
# race detector on. The repository is /repo; VERIF_REPO=<dir> points the same build at another checkout
# (used only for trying seeded changes in a scratch worktree without touching /repo).
build_rig() {
  local repo="${VERIF_REPO:-/repo}"
  if [ "$repo" = /repo ]; then
    ( cd "$VERIF_ROOT/harness" && go build -race -tags verif -o "$VERIF_ROOT/.build/$1" "./rigs/$1" ) && echo "$VERIF_ROOT/.build/$1"
  else
    local h; h=$(echo "$repo" | md5sum | cut -c1-8)
    local mf="$VERIF_ROOT/.build/alt-$h.mod"
    sed "s#=> /repo/#=> $repo/#" "$VERIF_ROOT/harness/go.mod" > "$mf" && cp "$VERIF_ROOT/harness/go.sum" "$VERIF_ROOT/.build/alt-$h.sum" || return 1
    ( cd "$VERIF_ROOT/harness" && go build -modfile="$mf" -race -tags verif -o "$VERIF_ROOT/.build/$1-$h" "./rigs/$1" ) && echo "$VERIF_ROOT/.build/$1-$h"
  fi
}
